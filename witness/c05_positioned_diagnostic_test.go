package parser

// Witness for C05: parsing ends with a tree or with a diagnostic that names the script and a
// line/column - never with the generic error of a recovered internal panic.
// overlay target: pkg/parser

import (
	"errors"
	"testing"

	"github.com/GuanceCloud/platypus/pkg/errchain"
)

func TestVerifWitnessC05PositionedDiagnostic(t *testing.T) {
	for _, src := range []string{
		"a = -0x1.5",
		"a = +0x1.5",
		"a = 1 / 0x1.5",
		"a = [0x1.5, 2]",
		"a = {\"k\": 0x1.5}",
		"for x in 0x1.5 { }",
		"a = 1e999999999999",
		"f(0x1.5)",
		"a = b[0x1.5]",
		"if 0x1.5 { }",
	} {
		stmts, err := ParsePipeline("w.p", src)
		if err == nil {
			if stmts == nil {
				t.Fatalf("REPLAY-VIOLATION %q: neither a tree nor an error", src)
			}
			continue
		}
		var pe *errchain.PlError
		if !errors.As(err, &pe) || len(pe.PosChain) == 0 || pe.PosChain[0].File != "w.p" || pe.PosChain[0].Ln < 1 {
			t.Fatalf("REPLAY-VIOLATION %q: the error carries no script name / position: %T %v", src, err, err)
		}
	}
}
