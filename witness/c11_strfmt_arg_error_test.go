package funcs

// Witness for C11: a failing argument of strfmt() must surface as a script error, not as
// fabricated text in the field. overlay target: pkg/inimpl/guancecloud/funcs

import (
	"testing"
	"time"

	"github.com/GuanceCloud/platypus/pkg/engine/runtime"
	"github.com/GuanceCloud/platypus/pkg/inimpl/guancecloud/input"
)

func TestVerifWitnessC11StrfmtArgError(t *testing.T) {
	script, err := NewTestingRunner("a = 0\nstrfmt(k, \"%d\", 1 / a)")
	if err != nil {
		t.Fatal(err)
	}
	pt := input.GetPoint()
	input.InitPt(pt, "m", nil, map[string]any{"message": "x"}, time.Now())
	var sig runtime.Signal
	errR := script.Run(pt, sig)
	if v, ok := pt.Fields["k"]; errR == nil && ok {
		t.Fatalf("REPLAY-VIOLATION strfmt stored fabricated text %q although evaluating its argument failed (division by zero)", v)
	}
}
