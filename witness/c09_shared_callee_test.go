package engine

// Witness for C09: reaching a script along two paths, or calling it twice, is not a cycle.
// overlay target: pkg/engine

import (
	"testing"

	"github.com/GuanceCloud/platypus/pkg/inimpl/guancecloud/funcs"
)

func TestVerifWitnessC09SharedCallee(t *testing.T) {
	for round := 0; round < 40; round++ {
		// a uses b twice
		_, errs := ParseScript(map[string]string{
			"a.p": "use(\"b.p\")\nuse(\"b.p\")",
			"b.p": "x = 1",
		}, funcs.FuncsMap, funcs.FuncsCheckMap)
		for k, e := range errs {
			t.Fatalf("REPLAY-VIOLATION round %d: %s rejected although the set is acyclic and complete: %v", round, k, e)
		}
		// diamond a->b, a->c, c->b
		_, errs = ParseScript(map[string]string{
			"a.p": "use(\"b.p\")\nuse(\"c.p\")",
			"b.p": "x = 1",
			"c.p": "use(\"b.p\")",
		}, funcs.FuncsMap, funcs.FuncsCheckMap)
		for k, e := range errs {
			t.Fatalf("REPLAY-VIOLATION round %d: %s rejected although the set is acyclic and complete: %v", round, k, e)
		}
	}
}
