package funcs

// Witness for C04: a string slice takes one byte of the source per index; slicing a string that
// contains multi-byte characters over its whole length must give the string back.
// overlay target: pkg/inimpl/guancecloud/funcs

import (
	"testing"
	"time"

	"github.com/GuanceCloud/platypus/pkg/engine/runtime"
	"github.com/GuanceCloud/platypus/pkg/inimpl/guancecloud/input"
)

func TestVerifWitnessC04StringSliceBytes(t *testing.T) {
	script, err := NewTestingRunner("a = \"héllo wörld\"\nb = a[0:]\nadd_key(b)\nc = a[::-1]\nd = c[::-1]\nadd_key(d)")
	if err != nil {
		t.Fatal(err)
	}
	pt := input.GetPoint()
	input.InitPt(pt, "m", nil, map[string]any{"message": "x"}, time.Now())
	var sig runtime.Signal
	if errR := script.Run(pt, sig); errR != nil {
		t.Fatal(errR)
	}
	if pt.Fields["b"] != "héllo wörld" {
		t.Fatalf("REPLAY-VIOLATION a[0:] of %q is %q", "héllo wörld", pt.Fields["b"])
	}
	if pt.Fields["d"] != "héllo wörld" {
		t.Fatalf("REPLAY-VIOLATION reversing %q twice gives %q", "héllo wörld", pt.Fields["d"])
	}
}
