package engine

// Witness for C17 (open known finding): the root-cause line of a circular-dependency error pairs the name
// of the script the traversal started from with the line/column of the use() call that closed the cycle,
// which lies in another script - a position that does not exist in the named source.
// overlay target: pkg/engine

import (
	"strings"
	"testing"

	"github.com/GuanceCloud/platypus/pkg/errchain"
	"github.com/GuanceCloud/platypus/pkg/inimpl/guancecloud/funcs"
)

func TestVerifWitnessC17CycleReportPair(t *testing.T) {
	src := map[string]string{
		"a.p": "use(\"b.p\")",       // one line
		"b.p": "\nuse(\"c.p\")",     // call site 2:1
		"c.p": "\n\n  use(\"b.p\")", // call site 3:3 closes the cycle b -> c -> b
	}
	_, errs := ParseScript(src, funcs.FuncsMap, funcs.FuncsCheckMap)
	e, ok := errs["a.p"].(*errchain.PlError)
	if !ok || len(e.PosChain) == 0 {
		t.Fatalf("a.p: expected a positioned circular dependency error, got %v", errs["a.p"])
	}
	root := e.PosChain[0]
	lines := strings.Count(src[root.File], "\n") + 1
	if root.Ln > lines {
		t.Fatalf("REPLAY-VIOLATION root cause is reported at %s:%d:%d, but %s has only %d line(s): %v", root.File, root.Ln, root.Col, root.File, lines, e)
	}
}
