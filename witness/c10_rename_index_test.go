package funcs

// Witness for C10: after rename the key index must agree with tags and fields.
// overlay target: pkg/inimpl/guancecloud/funcs

import (
	"testing"
	"time"

	"github.com/GuanceCloud/platypus/pkg/engine"
	"github.com/GuanceCloud/platypus/pkg/inimpl/guancecloud/input"
)

func verifRunC10(t *testing.T, script string, tags map[string]string, fields map[string]any) *input.Point {
	t.Helper()
	scripts, errs := engine.ParseScript(map[string]string{"w.p": script}, FuncsMap, FuncsCheckMap)
	if len(errs) > 0 {
		t.Fatalf("load: %v", errs)
	}
	pt := input.InitPt(input.GetPoint(), "m", tags, fields, time.Unix(0, 0))
	if err := scripts["w.p"].Run(pt, nil); err != nil {
		t.Fatalf("run: %v", err)
	}
	return pt
}

func TestVerifWitnessC10Rename(t *testing.T) {
	// a renamed field must be readable by the script under its new name, and droppable
	pt := verifRunC10(t, "rename(g, f)\nadd_key(copy, g)\n", nil, map[string]any{"f": int64(7)})
	if v, ok := pt.Fields["copy"]; !ok || v != int64(7) {
		t.Fatalf("REPLAY-VIOLATION after rename(g, f) the script reads g as %v (field g holds %v)", pt.Fields["copy"], pt.Fields["g"])
	}
	pt = verifRunC10(t, "rename(g, f)\ndrop_key(g)\n", nil, map[string]any{"f": int64(7)})
	if _, ok := pt.Fields["g"]; ok {
		t.Fatalf("REPLAY-VIOLATION after rename(g, f); drop_key(g) the field g is still in the output")
	}
	// renaming a field onto an existing tag must not leave the key both a tag and a field
	pt = verifRunC10(t, "rename(t1, f)\n", map[string]string{"t1": "x"}, map[string]any{"f": int64(7)})
	_, isTag := pt.Tags["t1"]
	_, isField := pt.Fields["t1"]
	if isTag && isField {
		t.Fatalf("REPLAY-VIOLATION after rename(t1, f) the key t1 is both a tag and a field")
	}
}
