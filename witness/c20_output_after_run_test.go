package run

// Witness for C20: the runner prints measurement and time as they are AFTER the run, and an
// empty line-protocol input is reported as an error instead of crashing. overlay target:
// internal/cmd/platypus/run

import (
	"context"
	"fmt"
	"os"
	"path/filepath"
	"strings"
	"testing"
)

type recLogger struct{ out []string }

func (r *recLogger) add(a ...interface{})                      { r.out = append(r.out, fmt.Sprint(a...)) }
func (r *recLogger) addf(f string, a ...interface{})           { r.out = append(r.out, fmt.Sprintf(f, a...)) }
func (r *recLogger) Debug(args ...interface{})                 { r.add(args...) }
func (r *recLogger) Debugf(format string, args ...interface{}) { r.addf(format, args...) }
func (r *recLogger) Info(args ...interface{})                  { r.add(args...) }
func (r *recLogger) Infof(format string, args ...interface{})  { r.addf(format, args...) }
func (r *recLogger) Warn(args ...interface{})                  { r.add(args...) }
func (r *recLogger) Warnf(format string, args ...interface{})  { r.addf(format, args...) }
func (r *recLogger) Error(args ...interface{})                 { r.add(args...) }
func (r *recLogger) Errorf(format string, args ...interface{}) { r.addf(format, args...) }
func (r *recLogger) Fatal(args ...interface{})                 { r.add(args...) }
func (r *recLogger) Fatalf(format string, args ...interface{}) { r.addf(format, args...) }

func TestVerifWitnessC20OutputAfterRun(t *testing.T) {
	dir := t.TempDir()
	script := filepath.Join(dir, "w.p")
	in := filepath.Join(dir, "in.txt")
	if err := os.WriteFile(script, []byte("set_measurement(\"renamed\")\n"), 0o600); err != nil {
		t.Fatal(err)
	}
	if err := os.WriteFile(in, []byte("hello"), 0o600); err != nil {
		t.Fatal(err)
	}
	wd, _ := os.Getwd()
	if err := os.Chdir(dir); err != nil {
		t.Fatal(err)
	}
	defer func() { _ = os.Chdir(wd) }()
	script = "w.p"
	rec := &recLogger{}
	saved := l
	l = rec
	defer func() { l = saved }()
	for _, ot := range []string{OutTypeJSON, OutTypeLineProtocol} {
		rec.out = nil
		if err := Run(context.Background(), &Options{Script: script, Input: in, Type: TypeText, OutputType: ot}); err != nil {
			t.Fatal(err)
		}
		all := strings.Join(rec.out, "\n")
		if !strings.Contains(all, "renamed") || strings.Contains(all, "default_name") {
			t.Fatalf("REPLAY-VIOLATION output (%s) does not show the measurement set by the script:\n%s", ot, all)
		}
	}
}

func TestVerifWitnessC20EmptyLineProtocol(t *testing.T) {
	dir := t.TempDir()
	script := filepath.Join(dir, "w.p")
	in := filepath.Join(dir, "in.lp")
	_ = os.WriteFile(script, []byte("add_key(a, 1)\n"), 0o600)
	_ = os.WriteFile(in, []byte("\n"), 0o600)
	wd, _ := os.Getwd()
	if err := os.Chdir(dir); err != nil {
		t.Fatal(err)
	}
	defer func() { _ = os.Chdir(wd) }()
	script = "w.p"
	rec := &recLogger{}
	saved := l
	l = rec
	defer func() { l = saved }()
	defer func() {
		if r := recover(); r != nil {
			t.Fatalf("REPLAY-VIOLATION runner crashed on an empty line-protocol input: %v", r)
		}
	}()
	if err := Run(context.Background(), &Options{Script: script, Input: in, Type: TypeLineProtocol, OutputType: OutTypeJSON}); err != nil {
		t.Fatal(err)
	}
}

func TestVerifWitnessC20SingleFilePath(t *testing.T) {
	dir := t.TempDir()
	script := filepath.Join(dir, "w.p")
	in := filepath.Join(dir, "in.txt")
	_ = os.WriteFile(script, []byte("add_key(a, 1)\n"), 0o600)
	_ = os.WriteFile(in, []byte("hello"), 0o600)
	rec := &recLogger{}
	saved := l
	l = rec
	defer func() { l = saved }()
	if err := Run(context.Background(), &Options{Script: script, Input: in, Type: TypeText, OutputType: OutTypeJSON}); err != nil {
		t.Fatal(err)
	}
	all := strings.Join(rec.out, "\n")
	if strings.Contains(all, "not found") || !strings.Contains(all, "Output Data") {
		t.Fatalf("REPLAY-VIOLATION a single script file given with a directory part is not run:\n%s", all)
	}
}
