package runtimev2

// Witness for C19: more arguments than parameters (without a variadic parameter) must be
// rejected at load time.  overlay target: pkg/engine/runtimev2

import (
	"testing"

	"github.com/GuanceCloud/platypus/pkg/ast"
	"github.com/GuanceCloud/platypus/pkg/parser"
)

func TestVerifWitnessC19SurplusArguments(t *testing.T) {
	stmts, err := parser.ParsePipeline("w.p", "f(1, 2)")
	if err != nil {
		t.Fatal(err)
	}
	call := stmts[0].CallExpr()
	task := NewTask("w.p", nil)
	var params []*Param
	_ = ast.TypeCallExpr
	if e := CheckPassParam(task, call, params); e == nil {
		t.Fatalf("REPLAY-VIOLATION CheckPassParam accepted f(1, 2) for a function without parameters")
	}
	params = []*Param{{Name: "a"}}
	if e := CheckPassParam(task, call, params); e == nil {
		t.Fatalf("REPLAY-VIOLATION CheckPassParam accepted f(1, 2) for a function with one parameter")
	}
}
