package engine

// Witness for C09 / C17: a rejected script's error lists, after the root cause, one entry per use() call
// site on the way out - each with the position of *that* call in *that* script.
// overlay target: pkg/engine

import (
	"testing"

	"github.com/GuanceCloud/platypus/pkg/inimpl/guancecloud/funcs"
)

func TestVerifWitnessC09CallSitePositions(t *testing.T) {
	for round := 0; round < 20; round++ {
		_, errs := ParseScript(map[string]string{
			"a.p": "\n\nuse(\"b.p\")",      // call site 3:1
			"b.p": "x = 1\n  use(\"c.p\")", // call site 2:3
			"c.p": " use(\"x.p\")",         // call site 1:2, x.p does not exist
		}, funcs.FuncsMap, funcs.FuncsCheckMap)
		want := map[string]string{
			"a.p": "c.p:1:2: script x.p not found\nb.p:2:3:\na.p:3:1:",
			"b.p": "c.p:1:2: script x.p not found\nb.p:2:3:",
			"c.p": "c.p:1:2: script x.p not found",
		}
		for k, w := range want {
			e, ok := errs[k]
			if !ok {
				t.Fatalf("REPLAY-VIOLATION round %d: %s accepted although x.p is missing", round, k)
			}
			if e.Error() != w {
				t.Fatalf("REPLAY-VIOLATION round %d: error of %s is\n%s\nwant\n%s", round, k, e.Error(), w)
			}
		}
	}
}
