package engine

// Witnesses for C18 / C14 (v2 interpreter). overlay target: pkg/engine
//  - a construct that yields no value (call of a function that returns nothing, attribute
//    expression) must not be replaced by the value of an earlier expression;
//  - the signal given to Script.Run must reach the task.

import (
	"testing"

	"github.com/GuanceCloud/platypus/pkg/ast"
	"github.com/GuanceCloud/platypus/pkg/engine/runtimev2"
	"github.com/GuanceCloud/platypus/pkg/errchain"
)

var witParams = []*runtimev2.Param{{Name: "v"}}

type witSig struct{ fire *bool }

func (s witSig) ExitSignal() bool { return *s.fire }

func witFns(seen *[]any, fire *bool, ticks *int) map[string]*runtimev2.Fn {
	nop := func(ctx *runtimev2.Task, fn *ast.CallExpr) *errchain.PlError { return nil }
	return map[string]*runtimev2.Fn{
		"nothing": {Call: nop, CallCheck: nop},
		"tick": {Call: func(ctx *runtimev2.Task, fn *ast.CallExpr) *errchain.PlError {
			*ticks++
			*fire = true
			return nil
		}, CallCheck: nop},
		"swallow": {Call: func(ctx *runtimev2.Task, fn *ast.CallExpr) *errchain.PlError {
			_, e := runtimev2.GetParam(ctx, fn, witParams, 0)
			return e
		}, CallCheck: func(ctx *runtimev2.Task, fn *ast.CallExpr) *errchain.PlError {
			return runtimev2.CheckPassParam(ctx, fn, witParams)
		}},
		"probe": {Call: func(ctx *runtimev2.Task, fn *ast.CallExpr) *errchain.PlError {
			if len(fn.Param) == 1 {
				if e := runtimev2.RunExpr(ctx, fn.Param[0]); e != nil {
					return e
				}
				if v, err := ctx.Regs.GetRet(); err == nil {
					*seen = append(*seen, v.V)
				}
			}
			return nil
		}, CallCheck: nop},
	}
}

func TestVerifWitnessC18StaleRegister(t *testing.T) {
	for _, src := range []string{
		"x = 5\nb = nothing()\nprobe(b)",
		"x = 5\nb = x.y\nprobe(b)",
		"x = 5\nb = nosuchfunction()\nprobe(b)",
		"b = swallow(7)\nprobe(b)",
	} {
		var seen []any
		var fire bool
		var ticks int
		s, err := ParseV2("w.p", src, witFns(&seen, &fire, &ticks))
		if err != nil {
			continue // rejected at load time: fine
		}
		rerr := s.Run(nil)
		if rerr == nil && len(seen) == 1 {
			t.Fatalf("REPLAY-VIOLATION %q: b silently received %v, the value of an earlier expression", src, seen[0])
		}
	}
}

func TestVerifWitnessC14V2Signal(t *testing.T) {
	var seen []any
	var fire bool
	var ticks int
	s, err := ParseV2("w.p", "for i = 0; i < 50; i = i + 1 {\n tick()\n}", witFns(&seen, &fire, &ticks))
	if err != nil {
		t.Fatal(err)
	}
	if rerr := s.Run(witSig{&fire}); rerr != nil {
		t.Fatal(rerr)
	}
	if ticks > 2 {
		t.Fatalf("REPLAY-VIOLATION the exit signal given to Script.Run was ignored: the loop body ran %d times after the signal fired", ticks-1)
	}
}

func TestVerifWitnessC18IntEquality(t *testing.T) {
	var seen []any
	var fire bool
	var ticks int
	s, err := ParseV2("w.p", "a = 9007199254740993 == 9007199254740992\nprobe(a)\nb = 9007199254740993 != 9007199254740992\nprobe(b)", witFns(&seen, &fire, &ticks))
	if err != nil {
		t.Fatal(err)
	}
	if rerr := s.Run(nil); rerr != nil {
		t.Fatal(rerr)
	}
	if len(seen) != 2 || seen[0] != false || seen[1] != true {
		t.Fatalf("REPLAY-VIOLATION 9007199254740993 == 9007199254740992 gave %v and != gave %v (integers compared through float64)", seen[0], seen[1])
	}
}

func TestVerifWitnessC18SliceNoCrash(t *testing.T) {
	for _, src := range []string{
		"a = [1,2,3]\nb = a[2:1]\nprobe(b)",
		"a = [1,2,3]\nb = a[5:]\nprobe(b)",
		"a = [1,2,3]\nb = a[-9:2]\nprobe(b)",
		"a = [1,2,3]\nb = a[1:-9:-1]\nprobe(b)",
		"a = \"abc\"\nb = a[2:1]\nprobe(b)",
		"a = \"abc\"\nb = a[-9::-1]\nprobe(b)",
	} {
		func() {
			defer func() {
				if r := recover(); r != nil {
					t.Fatalf("REPLAY-VIOLATION v2 slice expression crashed on %q: %v", src, r)
				}
			}()
			var seen []any
			var fire bool
			var ticks int
			s, err := ParseV2("w.p", src, witFns(&seen, &fire, &ticks))
			if err != nil {
				t.Fatal(err)
			}
			_ = s.Run(nil)
		}()
	}
}
