package runtimev2

// Witness for C19: a parameter list with a repeated name must be rejected.
// overlay target: pkg/engine/runtimev2

import "testing"

func TestVerifWitnessC19DuplicateNames(t *testing.T) {
	ps := []*Param{{Name: "a"}, {Name: "a"}}
	if err := CheckFnParamDef(ps); err == nil {
		t.Fatalf("REPLAY-VIOLATION CheckFnParamDef accepted the parameter list (a, a)")
	}
}
