package engine

// Witness for C08: an unknown function in the step of a slice expression with an omitted end
// bound must be rejected at load time. overlay target: pkg/engine

import (
	"testing"

	"github.com/GuanceCloud/platypus/pkg/inimpl/guancecloud/funcs"
)

func TestVerifWitnessC08SliceStep(t *testing.T) {
	for _, src := range []string{
		"x = [1,2,3]\ny = x[0::nosuch()]",
		"x = [1,2,3]\ny = x[::nosuch()]",
		"x = \"abc\"\ny = x[1::len()]",
	} {
		ok, errs := ParseScript(map[string]string{"w.p": src}, funcs.FuncsMap, funcs.FuncsCheckMap)
		if _, accepted := ok["w.p"]; accepted || len(errs) == 0 {
			t.Fatalf("REPLAY-VIOLATION script accepted at load time although the slice step calls an invalid function: %q", src)
		}
	}
}
