#!/usr/bin/env python3
"""Run the check of its property against each seeded change, several at a time.

Unlike tools_run_seeds.py (which applies a patch to /repo itself, runs the check and reverts - one seed at a
time), every seed gets a throw-away copy of /repo's working tree under /tmp (VERIF_REPO) with its own
scratch directory for work files and evidence (VERIF_SCRATCH); the check is the same ./check, reading the
same baselines.  Copies are removed as soon as their check returns.  Writes seeded/<id>/detection.json.
usage: tools_run_seeds_lanes.py [--lanes N] [seed-ids...]"""
import json, os, shutil, subprocess, sys, tempfile, time
from concurrent.futures import ThreadPoolExecutor
ROOT = os.path.dirname(os.path.abspath(__file__))


def run(sid):
    d = os.path.join(ROOT, "seeded", sid)
    meta = json.load(open(os.path.join(d, "meta.json")))
    pid = meta["property"]
    patch = os.path.join(d, "patch.ported.diff")
    if not os.path.exists(patch):
        patch = os.path.join(d, "patch.diff")
    tmp = tempfile.mkdtemp(prefix="verif-seed-" + sid + "-")
    t0 = time.time()
    try:
        wt = os.path.join(tmp, "tree")
        subprocess.run(["rsync", "-a", "--exclude", ".git", "/repo/", wt + "/"], check=True)
        ap = subprocess.run(["git", "apply", "--unsafe-paths", "--directory", wt, patch], capture_output=True, text=True, cwd="/")
        if ap.returncode != 0:
            ap = subprocess.run(["patch", "-p1", "-s", "-i", patch], capture_output=True, text=True, cwd=wt)
        if ap.returncode != 0:
            return sid, {"seed": sid, "error": "patch does not apply: " + (ap.stderr or ap.stdout)[:300], "detected": False}
        env = dict(os.environ, VERIF_REPO=wt, VERIF_SCRATCH=os.path.join(tmp, "out"), VERIF_JOBS=os.environ.get("VERIF_JOBS", "5"))
        r = subprocess.run([os.path.join(ROOT, "check"), pid], capture_output=True, text=True, cwd=ROOT, env=env)
        viol = [l for l in r.stdout.split("\n") if l.startswith("VIOLATION")]
        confirmed = [v for v in viol if "no-failing-input-found" not in v]
        res = {"seed": sid, "checks": {pid: {"exit": r.returncode, "violations": [v.replace(tmp, "<copy>")[:300] for v in viol[:6]], "n_violations": len(viol),
                                            "replayed_on_real_code": len(confirmed), "summary": r.stdout.strip().split("\n")[-1]}},
               "detected": r.returncode == 1 and bool(viol), "how": "copy of /repo's working tree with the patch applied (VERIF_REPO)", "seconds": round(time.time() - t0, 1)}
        return sid, res
    finally:
        shutil.rmtree(tmp, ignore_errors=True)


def main():
    args = sys.argv[1:]
    lanes = 3
    if args and args[0] == "--lanes":
        lanes = int(args[1])
        args = args[2:]
    ids = args or sorted(x for x in os.listdir(os.path.join(ROOT, "seeded")) if os.path.isdir(os.path.join(ROOT, "seeded", x)))
    head = {"repo_head": subprocess.run("git -C /repo rev-parse --short HEAD", shell=True, capture_output=True, text=True).stdout.strip(),
            "verif_head": subprocess.run("git -C /verif rev-parse --short HEAD", shell=True, capture_output=True, text=True).stdout.strip()}
    with ThreadPoolExecutor(max_workers=lanes) as ex:
        for sid, res in ex.map(run, ids):
            res.update(head)
            json.dump(res, open(os.path.join(ROOT, "seeded", sid, "detection.json"), "w"), indent=1)
            c = list((res.get("checks") or {}).values())
            first = (c[0]["violations"] or [""])[0][60:210] if c else res.get("error", "")
            print(sid, "DETECTED" if res["detected"] else "missed", (c[0]["n_violations"] if c else 0), (c[0].get("replayed_on_real_code") if c else 0), res.get("seconds"), first, flush=True)


main()
