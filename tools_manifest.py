#!/usr/bin/env python3
"""Regenerates MANIFEST.json from contracts/properties.json (one source of truth for claimed checks)."""
import json, os
ROOT = os.path.dirname(os.path.abspath(__file__))
claims = json.load(open(os.path.join(ROOT, "contracts", "properties.json")))
props = [json.loads(l) for l in open(os.path.join(ROOT, "properties.jsonl"))]
hooks = claims["hooks"]
man = {
    "version": 1,
    "setup_cmd": "cd /verif/plvc && GOFLAGS=-mod=mod GOPROXY=off GOSUMDB=off GOTOOLCHAIN=local go build -o /verif/bin/plvc .",
    "hooks": {
        "guard": "verif",
        "enable": "plvc loads /repo with go/packages BuildFlags -tags=verif, which makes the comment-only contracts_verif.go files (//@ lines) visible; no executable code is guarded",
        "baseline_off_cmd": "cd /repo && GOFLAGS=-mod=mod GOPROXY=off GOSUMDB=off GOTOOLCHAIN=local go test -json -vet=off -count=1 -timeout 25m ./...",
        "source_commits": hooks,
        "add_only": True,
    },
    "engines": [{"name": "plvc", "path": "/verif/plvc", "serves_properties": sorted(claims["claimed"].keys()),
                 "kind_free_text": "contract-based deductive verification: weakest-precondition style VC generation over go/ssa (NaiveForm) of the working tree, contracts in //@ comment files, obligations discharged by z3 5.1 / z3 4.8 / cvc5 portfolio"}],
    "checks": [],
    "not_applicable": [],
    "notes": claims.get("notes", ""),
}
for p in props:
    pid = p["id"]
    c = claims["claimed"].get(pid)
    if c:
        man["checks"].append({
            "property_id": pid,
            "quick_cmd": f"./check {pid} --tier quick",
            "thorough_cmd": f"./check {pid} --tier thorough",
            "evidence_file": f"/verif/evidence/{pid}.json",
            "replay_cmd_template": f"./check {pid} --replay {{path}}",
            "engine": "plvc",
            "level_claimed": {"category": "proof", "text": c["text"], "design_ref": c.get("design_ref", "DESIGN.md section 4, " + pid)},
            "level_note": c["note"],
            "technique": c.get("technique", "contract-based deductive verification: per-function VCs from go/ssa + //@ contracts, discharged by SMT (z3/cvc5)"),
        })
    else:
        man["not_applicable"].append({"property_id": pid, "reason": claims["not_applicable"][pid]})
json.dump(man, open(os.path.join(ROOT, "MANIFEST.json"), "w"), indent=1)
print("MANIFEST.json:", len(man["checks"]), "checks,", len(man["not_applicable"]), "not applicable")
