#!/usr/bin/env python3
"""debug helper: lib/parts.py <outdir> <name-substring> : solve every part of matching obligations, print the goal of failing parts"""
import json, os, sys
sys.path.insert(0, os.path.dirname(__file__))
import solve as S
d, pat = sys.argv[1], sys.argv[2]
idx = json.load(open(os.path.join(d, "index.json")))
for o in idx["obligations"]:
    if pat not in o["name"]:
        continue
    print("==", o["name"], len(o["files"]), "parts")
    for f in o["files"]:
        r = S.solve(os.path.join(d, f), quick_t=6, full_t=20)
        if (r["result"] != "unsat") != bool(o.get("expect_sat")):
            lines = open(os.path.join(d, f)).read().split("\n")
            goal = [l for l in lines if l.startswith("(assert")][-1]
            print("  FAIL", r["result"], f, goal[:int(sys.argv[3]) if len(sys.argv) > 3 else 700])
