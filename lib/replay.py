"""Replay of solver counterexamples on the real code.

A replay template is a Go test file (text/template-free: python str.format with
{name} fields) stored under replay_templates/<function>.go.tmpl; it is injected into
the package with `go test -overlay` (nothing is written into /repo), receives the
model values of the function's parameters, calls the real function under recover()
and evaluates the violated clause.  Where no template exists the violation is still
reported, with the solver output, as no-failing-input-found.
"""
import json, os, re, subprocess, tempfile

GOENV = dict(os.environ, GOFLAGS="-mod=mod", GOPROXY="off", GOSUMDB="off", GOTOOLCHAIN="local")


def parse_model(text):
    """very small parser for `(define-fun name () Sort value)` entries of a z3/cvc5 model"""
    vals = {}
    for m in re.finditer(r"\(define-fun\s+(\|[^|]*\||\S+)\s+\(\)\s+(\([^()]*(?:\([^()]*\)[^()]*)*\)|\S+)\s+((?:\((?:[^()]|\([^()]*\))*\))|[^\s()]+)\)", text):
        name = m.group(1).strip("|")
        vals[name] = m.group(3)
    return vals


def smt_int(v):
    v = v.strip()
    m = re.fullmatch(r"\(-\s*(\d+)\)", v)
    if m:
        return -int(m.group(1))
    if re.fullmatch(r"-?\d+", v):
        return int(v)
    m = re.fullmatch(r"#x([0-9a-fA-F]+)", v)
    if m:
        n = int(m.group(1), 16)
        bits = 4 * len(m.group(1))
        return n - (1 << bits) if n >= 1 << (bits - 1) else n
    m = re.fullmatch(r"#b([01]+)", v)
    if m:
        n = int(m.group(1), 2)
        bits = len(m.group(1))
        return n - (1 << bits) if n >= 1 << (bits - 1) else n
    m = re.fullmatch(r"\(_ bv(\d+) (\d+)\)", v)
    if m:
        n, bits = int(m.group(1)), int(m.group(2))
        return n - (1 << bits) if n >= 1 << (bits - 1) else n
    return None


def load_templates(root):
    p = os.path.join(root, "replay_templates", "index.json")
    if os.path.exists(p):
        return json.load(open(p))
    return {}


def run_overlay_test(repo, pkg_dir, test_src, run_name, timeout=120):
    """inject test_src as <pkg_dir>/zz_verif_replay_test.go via -overlay and run it"""
    with tempfile.TemporaryDirectory(prefix="verif-replay-") as td:
        tf = os.path.join(td, "zz_verif_replay_test.go")
        open(tf, "w").write(test_src)
        ov = os.path.join(td, "overlay.json")
        json.dump({"Replace": {os.path.join(repo, pkg_dir, "zz_verif_replay_test.go"): tf}}, open(ov, "w"))
        cmd = ["go", "test", "-overlay", ov, "-vet=off", "-count=1", "-timeout", "60s", "-run", "^" + run_name + "$", "./" + pkg_dir]
        try:
            p = subprocess.run(cmd, cwd=repo, env=GOENV, capture_output=True, text=True, timeout=timeout)
            return p.returncode, (p.stdout + p.stderr)[-6000:]
        except subprocess.TimeoutExpired:
            return -1, "replay timed out"


def fp_to_go(v):
    m = re.fullmatch(r"\(fp #b([01]) #b([01]+) #b([01]+)\)", v.strip())
    if m:
        bits = int(m.group(1) + m.group(2) + m.group(3), 2)
        return "math.Float64frombits(0x%x)" % bits
    if "+zero" in v:
        return "0.0"
    if "-zero" in v:
        return "math.Copysign(0, -1)"
    if "+oo" in v:
        return "math.Inf(1)"
    if "-oo" in v:
        return "math.Inf(-1)"
    if "NaN" in v:
        return "math.NaN()"
    return None


def str_to_go(v, model, extras):
    """a Str model value is an abstract element; recover the literal through an interned constant with the same value"""
    for name, lit in (extras.get("str_consts") or {}).items():
        if model.get(name) == v:
            return json.dumps(lit)
    return None


def any_to_go(v, model, extras):
    v = v.strip()
    if v == "anil":
        return "nil"
    m = re.fullmatch(r"\((aint|aflt|abool|astr) (\d+) (.*)\)", v, re.S)
    if not m:
        return None
    kind, tid, payload = m.group(1), int(m.group(2)), m.group(3).strip()
    tids = extras.get("type_ids") or []
    tname = tids[tid - 1] if 0 < tid <= len(tids) else None
    if kind == "aint":
        iv = smt_int(payload)
        if iv is None or tname is None:
            return None
        gt = tname.split("/")[-1]
        return "%s(%d)" % (gt, iv)
    if kind == "aflt":
        f = fp_to_go(payload)
        return None if f is None else "float64(%s)" % f
    if kind == "abool":
        return payload
    if kind == "astr":
        return str_to_go(payload, model, extras)
    return None


def try_replay(root, repo, pid, obligation, result, smt_file, extras=None):
    tmpl = load_templates(root)
    fn = obligation["func"]
    entry = tmpl.get(fn)
    if not entry:
        return {"confirmed": False, "reason": "no replay template for " + fn + "; solver output attached"}
    if result["result"] != "sat":
        return {"confirmed": False, "reason": "solver gave no model (" + result["result"] + ")"}
    model = parse_model(result.get("model", ""))
    extras = extras or {}
    try:
        src = open(os.path.join(root, "replay_templates", entry["file"])).read()
        args = {}
        for name, kind in entry["params"].items():
            v = model.get("p_" + name)
            if v is None:
                return {"confirmed": False, "reason": f"model has no value for parameter {name}"}
            g = None
            if kind == "int":
                iv = smt_int(v)
                g = None if iv is None else str(iv)
            elif kind == "any":
                g = any_to_go(v, model, extras)
            elif kind == "string":
                g = str_to_go(v, model, extras)
            elif kind == "float":
                g = fp_to_go(v)
            elif kind == "bool":
                g = v
            if g is None:
                return {"confirmed": False, "reason": f"model value of {name} ({v[:80]}) is not replayable as {kind}"}
            args[name] = g
        test_src = src
        for k, v in args.items():
            test_src = test_src.replace("{{" + k + "}}", v)
        rc, out = run_overlay_test(repo, entry["pkg_dir"], test_src, entry["test"])
        return {"confirmed": rc != 0 and "REPLAY-VIOLATION" in out, "args": args, "go_test_exit": rc, "output": out, "test_source": test_src}
    except Exception as e:  # noqa: BLE001
        return {"confirmed": False, "reason": "replay machinery error: " + repr(e)}


def rerun(root, repo, rec):
    rep = rec.get("replay") or {}
    if rep.get("test_source"):
        tmpl = load_templates(root)
        entry = tmpl.get(rec.get("function"))
        if entry:
            rc, out = run_overlay_test(repo, entry["pkg_dir"], rep["test_source"], entry["test"])
            return {"confirmed": rc != 0 and "REPLAY-VIOLATION" in out, "go_test_exit": rc, "output": out}
    if rep.get("script"):
        return run_script_witness(root, repo, rep)
    return {"confirmed": False, "reason": "this record carries no replayable input (see solver output in the record)"}


def run_script_witness(root, repo, rep):
    return {"confirmed": False, "reason": "script witnesses are replayed by the known-findings canaries (selftest)"}
