"""Replay of solver counterexamples on the real code.

A replay template is a Go test file (text/template-free: python str.format with
{name} fields) stored under replay_templates/<function>.go.tmpl; it is injected into
the package with `go test -overlay` (nothing is written into /repo), receives the
model values of the function's parameters, calls the real function under recover()
and evaluates the violated clause.  Where no template exists the violation is still
reported, with the solver output, as no-failing-input-found.
"""
import json, os, re, subprocess, tempfile

GOENV = dict(os.environ, GOFLAGS="-mod=mod", GOPROXY="off", GOSUMDB="off", GOTOOLCHAIN="local")


def parse_model(text):
    """very small parser for `(define-fun name () Sort value)` entries of a z3/cvc5 model"""
    vals = {}
    for m in re.finditer(r"\(define-fun\s+(\|[^|]*\||\S+)\s+\(\)\s+(\([^()]*(?:\([^()]*\)[^()]*)*\)|\S+)\s+((?:\((?:[^()]|\([^()]*\))*\))|[^\s()]+)\)", text):
        name = m.group(1).strip("|")
        vals[name] = m.group(3)
    return vals


def smt_int(v):
    v = v.strip()
    m = re.fullmatch(r"\(-\s*(\d+)\)", v)
    if m:
        return -int(m.group(1))
    if re.fullmatch(r"-?\d+", v):
        return int(v)
    m = re.fullmatch(r"#x([0-9a-fA-F]+)", v)
    if m:
        n = int(m.group(1), 16)
        bits = 4 * len(m.group(1))
        return n - (1 << bits) if n >= 1 << (bits - 1) else n
    m = re.fullmatch(r"#b([01]+)", v)
    if m:
        n = int(m.group(1), 2)
        bits = len(m.group(1))
        return n - (1 << bits) if n >= 1 << (bits - 1) else n
    m = re.fullmatch(r"\(_ bv(\d+) (\d+)\)", v)
    if m:
        n, bits = int(m.group(1)), int(m.group(2))
        return n - (1 << bits) if n >= 1 << (bits - 1) else n
    return None


def load_templates(root):
    p = os.path.join(root, "replay_templates", "index.json")
    if os.path.exists(p):
        return json.load(open(p))
    return {}


def run_overlay_test(repo, pkg_dir, test_src, run_name, timeout=120):
    """inject test_src as <pkg_dir>/zz_verif_replay_test.go via -overlay and run it"""
    with tempfile.TemporaryDirectory(prefix="verif-replay-") as td:
        tf = os.path.join(td, "zz_verif_replay_test.go")
        open(tf, "w").write(test_src)
        ov = os.path.join(td, "overlay.json")
        json.dump({"Replace": {os.path.join(repo, pkg_dir, "zz_verif_replay_test.go"): tf}}, open(ov, "w"))
        cmd = ["go", "test", "-overlay", ov, "-vet=off", "-count=1", "-timeout", "60s", "-run", "^" + run_name + "$", "./" + pkg_dir]
        try:
            p = subprocess.run(cmd, cwd=repo, env=GOENV, capture_output=True, text=True, timeout=timeout)
            o = p.stdout + p.stderr
            return p.returncode, (o if len(o) <= 12000 else o[:6000] + "\n...[cut]...\n" + o[-6000:])
        except subprocess.TimeoutExpired:
            return -1, "replay timed out"


def fp_to_go(v):
    m = re.fullmatch(r"\(fp #b([01]) #b([01]+) #b([01]+)\)", v.strip())
    if m:
        bits = int(m.group(1) + m.group(2) + m.group(3), 2)
        return "math.Float64frombits(0x%x)" % bits
    if "+zero" in v:
        return "0.0"
    if "-zero" in v:
        return "math.Copysign(0, -1)"
    if "+oo" in v:
        return "math.Inf(1)"
    if "-oo" in v:
        return "math.Inf(-1)"
    if "NaN" in v:
        return "math.NaN()"
    return None


def str_to_go(v, model, extras):
    """a Str model value is an abstract element; recover the literal through an interned constant with the same value"""
    for name, lit in (extras.get("str_consts") or {}).items():
        if model.get(name) == v:
            return json.dumps(lit)
    return None


def any_to_go(v, model, extras):
    v = v.strip()
    if v == "anil":
        return "nil"
    m = re.fullmatch(r"\((aint|aflt|abool|astr) (\d+) (.*)\)", v, re.S)
    if not m:
        return None
    kind, tid, payload = m.group(1), int(m.group(2)), m.group(3).strip()
    tids = extras.get("type_ids") or []
    tname = tids[tid - 1] if 0 < tid <= len(tids) else None
    if kind == "aint":
        iv = smt_int(payload)
        if iv is None or tname is None:
            return None
        gt = tname.split("/")[-1]
        return "%s(%d)" % (gt, iv)
    if kind == "aflt":
        f = fp_to_go(payload)
        return None if f is None else "float64(%s)" % f
    if kind == "abool":
        return payload
    if kind == "astr":
        return str_to_go(payload, model, extras)
    return None


# ---- a small evaluator for solver models (function interpretations) -------------------------

def _tokenize(text):
    return re.findall(r"\|[^|]*\||\(|\)|\"(?:[^\"]|\"\")*\"|[^\s()]+", text)


def _parse_sexprs(text):
    toks = _tokenize(text)
    pos = 0
    out = []

    def rd():
        nonlocal pos
        t = toks[pos]
        pos += 1
        if t == "(":
            lst = []
            while toks[pos] != ")":
                lst.append(rd())
            pos += 1
            return lst
        return t

    while pos < len(toks):
        if toks[pos] == ")":
            pos += 1
            continue
        out.append(rd())
    return out


class Model:
    """function interpretations of a z3 / cvc5 model; values stay s-expressions (atoms or lists)"""

    def __init__(self, text):
        self.funs = {}
        try:
            tops = _parse_sexprs(text)
        except Exception:  # noqa: BLE001
            tops = []
        items = []
        for t in tops:
            if isinstance(t, list) and t and t[0] == "define-fun":
                items.append(t)
            elif isinstance(t, list):
                items.extend(x for x in t if isinstance(x, list) and x and x[0] == "define-fun")
        for d in items:
            if len(d) == 5:
                self.funs[d[1].strip("|")] = ([p[0] for p in d[2]], d[4])

    def const(self, name):
        f = self.funs.get(name)
        if f and not f[0]:
            return self.ev(f[1], {})
        return None

    def apply(self, name, args):
        f = self.funs.get(name)
        if f is None:
            raise KeyError(name)
        return self.ev(f[1], dict(zip(f[0], args)))

    def num(self, v):
        if isinstance(v, list):
            if len(v) == 2 and v[0] == "-":
                return -self.num(v[1])
            if len(v) == 3 and v[0] == "_" and str(v[1]).startswith("bv"):
                n, bits = int(v[1][2:]), int(v[2])
                return n - (1 << bits) if n >= 1 << (bits - 1) else n
            raise ValueError(v)
        iv = smt_int(v)
        if iv is None:
            raise ValueError(v)
        return iv

    def ev(self, e, env, depth=0):
        if depth > 400:
            raise RecursionError
        if not isinstance(e, list):
            if e in env:
                return env[e]
            if e in self.funs and not self.funs[e][0] and e not in ("true", "false"):
                return self.ev(self.funs[e][1], {}, depth + 1)
            return e
        if not e:
            return e
        h = e[0]
        ev = lambda x: self.ev(x, env, depth + 1)  # noqa: E731
        if h == "ite":
            return ev(e[2]) if ev(e[1]) == "true" else ev(e[3])
        if h == "=":
            vs = [ev(x) for x in e[1:]]
            return "true" if all(self.same(vs[0], v) for v in vs[1:]) else "false"
        if h == "distinct":
            vs = [ev(x) for x in e[1:]]
            return "true" if all(not self.same(a, b) for i, a in enumerate(vs) for b in vs[i + 1:]) else "false"
        if h == "and":
            return "true" if all(ev(x) == "true" for x in e[1:]) else "false"
        if h == "or":
            return "true" if any(ev(x) == "true" for x in e[1:]) else "false"
        if h == "not":
            return "false" if ev(e[1]) == "true" else "true"
        if h == "=>":
            return "true" if ev(e[1]) != "true" or ev(e[2]) == "true" else "false"
        if h == "let":
            env2 = dict(env)
            for b in e[1]:
                env2[b[0]] = self.ev(b[1], env, depth + 1)
            return self.ev(e[2], env2, depth + 1)
        if h in ("+", "-", "*", "<=", "<", ">=", ">", "div", "mod"):
            ns = [self.num(ev(x)) for x in e[1:]]
            if h == "+":
                return str(sum(ns))
            if h == "-":
                return str(-ns[0] if len(ns) == 1 else ns[0] - sum(ns[1:]))
            if h == "*":
                r = 1
                for n in ns:
                    r *= n
                return str(r)
            if h == "div":
                return str(ns[0] // ns[1]) if ns[1] else "0"
            if h == "mod":
                return str(ns[0] % abs(ns[1])) if ns[1] else "0"
            ok = {"<=": ns[0] <= ns[1], "<": ns[0] < ns[1], ">=": ns[0] >= ns[1], ">": ns[0] > ns[1]}[h]
            return "true" if ok else "false"
        if h == "select":
            return self.sel(ev(e[1]), ev(e[2]), depth)
        if h in ("store", "lambda", "_", "as"):
            if h == "store":
                return ["store", ev(e[1]), ev(e[2]), ev(e[3])]
            return e
        if isinstance(h, str) and h in self.funs and self.funs[h][0]:
            return self.apply(h, [ev(x) for x in e[1:]])
        if isinstance(h, list) and h and h[0] == "as" and h[1] == "const":
            return ["constarr", ev(e[1])]
        return [h] + [ev(x) for x in e[1:]]

    def same(self, a, b):
        try:
            return self.num(a) == self.num(b)
        except Exception:  # noqa: BLE001
            return a == b

    def sel(self, arr, idx, depth=0):
        for _ in range(100000):
            if isinstance(arr, list) and arr and arr[0] == "store":
                if self.same(arr[2], idx):
                    return arr[3]
                arr = arr[1]
                continue
            if isinstance(arr, list) and arr and arr[0] == "constarr":
                return arr[1]
            if isinstance(arr, list) and len(arr) == 3 and arr[0] == "_" and arr[1] == "as-array":
                return self.apply(arr[2], [idx])
            if isinstance(arr, list) and arr and arr[0] == "lambda":
                return self.ev(arr[2], {arr[1][0][0]: idx}, depth + 1)
            break
        raise ValueError("select from " + str(arr)[:80])

    def go_string(self, atom, limit=200000):
        """the Go literal of a Str element: its length and bytes as the model interprets slen / sbyte"""
        n = self.num(self.apply("slen", [atom]))
        if n < 0 or n > limit:
            return None
        bs = []
        for i in range(n):
            b = self.num(self.apply("sbyte", [atom, str(i)]))
            bs.append(b & 0xFF)
        return "string([]byte{" + ", ".join(str(b) for b in bs) + "})" if bs else '""'


def _sx(v):
    return v if not isinstance(v, list) else "(" + " ".join(_sx(x) for x in v) + ")"


def model_value_to_go(kind, gotype, name, M, extras, bits=64, unsigned=False):
    """Go text for the model's value of parameter `name`; None when it cannot be rendered"""
    v = M.const("p_" + name)
    if v is None:
        # the solver left it unconstrained: any value will do
        return {"int": "0", "bool": "false", "string": '""', "float": "0.0", "any": "nil"}[kind] if kind != "int" or True else None
    try:
        if kind == "int":
            n = M.num(v) & ((1 << bits) - 1)
            if not unsigned and n >= 1 << (bits - 1):
                n -= 1 << bits
            return str(n)
        if kind == "bool":
            return "true" if v == "true" else "false"
        if kind == "float":
            return fp_to_go(_sx(v))
        if kind == "string":
            lit = str_to_go(_sx(v), {k: _sx(M.const(k)) for k in (extras.get("str_consts") or {}) if M.const(k) is not None}, extras)
            return lit if lit is not None else M.go_string(v)
        if kind == "any":
            if v == "anil":
                return "nil"
            if isinstance(v, list) and v and v[0] in ("aint", "aflt", "abool", "astr"):
                tids = extras.get("type_ids") or []
                tid = M.num(v[1])
                tname = tids[tid - 1] if 0 < tid <= len(tids) else None
                if v[0] == "aint":
                    if tname is None:
                        return None
                    return "%s(%d)" % (tname.split("/")[-1], M.num(v[2]))
                if v[0] == "aflt":
                    f = fp_to_go(_sx(v[2]))
                    return None if f is None else "float64(%s)" % f
                if v[0] == "abool":
                    return "true" if v[2] == "true" else "false"
                if v[0] == "astr":
                    lit = str_to_go(_sx(v[2]), {k: _sx(M.const(k)) for k in (extras.get("str_consts") or {}) if M.const(k) is not None}, extras)
                    return lit if lit is not None else M.go_string(v[2])
            return None
    except Exception:  # noqa: BLE001
        return None
    return None


AUTO_TEST = "TestVerifAutoReplay"


def _split_helpers(text):
    out = {}
    for m in re.finditer(r"func (verifSpec_\w+)\(.*?\n}\n", text or "", re.S):
        out[m.group(1)] = m.group(0)
    return out


def build_auto_test(ri, safety, clauses, cases):
    """the in-package test that calls the real function on each candidate input (the model's
    values first), requires that it does not panic and evaluates the given clauses (dicts with
    clause / go_clause / go_helpers / go_imports) on what it returned"""
    sig = ", ".join(f"{p['name']} {p['gotype'] or 'any'}" for p in ri["params"])
    body = []
    for p in ri["params"]:
        body.append(f"\t_ = {p['name']}")
    res = ri.get("results") or []
    for i, t in enumerate(res):
        body.append(f"\tvar verifR{i} {t}")
        body.append(f"\t_ = verifR{i}")
    lhs = ", ".join(f"verifR{i}" for i in range(len(res)))
    call = f"{ri['call']}({', '.join(p['name'] for p in ri['params'])})"
    if lhs:
        call = lhs + " = " + call
    body.append("\tpanicked := func() (p any) {\n\t\tdefer func() { p = recover() }()\n\t\t" + call + "\n\t\treturn nil\n\t}()")
    argdump = ", ".join(f"{p['name']}=%s" for p in ri["params"])
    argvals = ", ".join(f"verifShow({p['name']})" for p in ri["params"])
    tag = "REPLAY-VIOLATION" if safety else "REPLAY-PANIC"
    body.append(f'\tif panicked != nil {{\n\t\tt.Errorf("{tag} [%s] {ri["call"]}({argdump}) panicked: %v", verifCaseName, {argvals}, panicked)\n\t\treturn {"true" if safety else "false"}\n\t}}')
    resdump = ", ".join(f"result{i}=%s" for i in range(len(res)))
    resvals = ", ".join(f"verifShow(verifR{i})" for i in range(len(res)))
    fmtargs = ", ".join(x for x in (argvals, resvals) if x)
    helpers = {}
    extra_imports = []
    for n, c in enumerate(clauses):
        helpers.update(_split_helpers(c.get("go_helpers")))
        extra_imports += c.get("go_imports") or []
        body.append("\t{\n\t\tvar evalPanic any\n\t\tholds := func() (ok bool) {\n\t\t\tdefer func() {\n\t\t\t\tif p := recover(); p != nil {\n\t\t\t\t\tevalPanic, ok = p, true\n\t\t\t\t}\n\t\t\t}()\n\t\t\treturn " + c["go_clause"] + "\n\t\t}()")
        body.append('\t\tif evalPanic != nil {\n\t\t\tt.Logf("REPLAY-UNDECIDED [%s] evaluating clause %d panicked: %v", verifCaseName, ' + str(n) + ', evalPanic)\n\t\t}')
        body.append(f'\t\tif !holds {{\n\t\t\tt.Errorf("REPLAY-VIOLATION [%s] clause false: %s\\n  for {ri["call"]}({argdump}): {resdump}", verifCaseName, {json.dumps(c["clause"])}, {fmtargs})\n\t\t\treturn true\n\t\t}}\n\t}}')
    body.append("\treturn false")
    helper_text = "\n".join(helpers[k] for k in sorted(helpers))
    calls = []
    for label, args in cases:
        vals = []
        for p in ri["params"]:
            gt = p["gotype"] or "any"
            vals.append(args[p["name"]] if p["kind"] == "any" else f"{gt}({args[p['name']]})")
        calls.append(f"\tif verifCase(t, {json.dumps(label)}, {', '.join(vals)}) {{\n\t\treturn\n\t}}")
    text_for_imports = "\n".join(body) + helper_text + sig + "\n".join(calls)
    imports = {"testing": "testing", "math": "math", "fmt": "fmt"}
    for n, path in list(ri.get("imports") or []) + extra_imports:
        if re.search(r"\b" + re.escape(n) + r"\.", text_for_imports):
            imports[n] = path
    src = [f"package {ri['pkg_name']}", "", "import ("]
    for n, path in sorted(imports.items()):
        src.append(f'\t{n} "{path}"')
    src += [")", "", "var _ = math.NaN", "",
            "func verifShow(v any) string {\n\ts := fmt.Sprintf(\"%#v\", v)\n\tif len(s) > 300 {\n\t\ts = s[:150] + \"...\" + s[len(s)-150:]\n\t}\n\treturn s\n}", "",
            "func verifSame(a, b any) bool {\n\tfa, ok1 := a.(float64)\n\tfb, ok2 := b.(float64)\n\tif ok1 && ok2 {\n\t\treturn (fa != fa && fb != fb) || math.Float64bits(fa) == math.Float64bits(fb)\n\t}\n\treturn a == b\n}", "",
            helper_text, "",
            f"func verifCase(t *testing.T, verifCaseName string, {sig}) bool {{"] + body + ["}", "",
            f"func {AUTO_TEST}(t *testing.T) {{"] + calls + ["}", ""]
    return "\n".join(src)


FILLERS = [("'8'", 56), ("'f'", 102), ("'F'", 70), ("'0'", 48), ("'a'", 97), ("' '", 32), ("newline", 10), ("'\"'", 34), ("0xff", 255), ("0x80", 128), ("'\\\\'", 92), ("'9'", 57)]


def string_variants(M, ri, extras, base_args):
    """inputs near the model: the bytes of string parameters that the model left at its default
    value (they did not matter to the solver, usually because a loop was cut at its invariant)
    replaced by a filler.  Only tried when the model's own input does not reproduce."""
    out = []
    free = {}
    for p in ri["params"]:
        if p["kind"] != "string":
            continue
        v = M.const("p_" + p["name"])
        if v is None:
            continue
        try:
            n = M.num(M.apply("slen", [v]))
            if n <= 0 or n > 4096:
                continue
            default = M.num(M.apply("sbyte", [v, str(n + 987654)])) & 0xFF
            bs = [M.num(M.apply("sbyte", [v, str(i)])) & 0xFF for i in range(n)]
        except Exception:  # noqa: BLE001
            continue
        idx = [i for i, b in enumerate(bs) if b == default]
        last = max([i for i, b in enumerate(bs) if b != default], default=-1)
        tail = [i for i in idx if i > last]
        if idx:
            free[p["name"]] = (bs, tail, idx)
    if not free:
        return out
    for which, what in ((1, "trailing unconstrained"), (2, "unconstrained")):
        for label, fb in FILLERS:
            args = dict(base_args)
            changed = False
            for name, fr in free.items():
                bs, idx = fr[0], fr[which]
                if which == 2 and idx == fr[1]:
                    continue
                nb = list(bs)
                for i in idx:
                    nb[i] = fb
                    changed = True
                args[name] = "string([]byte{" + ", ".join(str(b) for b in nb) + "})"
            if changed:
                out.append((f"model with its {what} string bytes set to {label}", args))
    return out


def small_model(smt_file, ri, intmode, bound):
    """the same query with the string parameters bounded in length; the model text, or None"""
    try:
        text = open(smt_file).read()
    except OSError:
        return None
    cons = []
    for p in ri["params"]:
        if p["kind"] == "string":
            if intmode == "bv64":
                cons.append(f"(assert (bvule (slen p_{p['name']}) (_ bv{bound} 64)))")
            else:
                cons.append(f"(assert (<= (slen p_{p['name']}) {bound}))")
    if not cons:
        return None
    i = text.rfind("(check-sat)")
    if i < 0:
        return None
    with tempfile.NamedTemporaryFile("w", suffix=".smt2", delete=False) as f:
        f.write(text[:i] + "\n".join(cons) + "\n" + text[i:])
        path = f.name
    try:
        for solver in (["z3-new", "-smt2", "-T:20", path], ["/usr/bin/z3", "-smt2", "-T:20", path]):
            try:
                out = subprocess.run(solver, capture_output=True, text=True, timeout=30).stdout
            except (subprocess.TimeoutExpired, OSError):
                continue
            if out.startswith("sat"):
                return out.split("\n", 1)[1] if "\n" in out else ""
    finally:
        os.unlink(path)
    return None


def auto_replay(repo, pid, obligation, result, extras, smt_file=None):
    ri = (extras or {}).get("replay")
    if not ri:
        return None
    if result["result"] != "sat":
        return {"confirmed": False, "reason": "solver gave no model (" + result["result"] + ")"}
    safety = obligation["kind"].startswith("safe:")
    if obligation.get("go_clause"):
        clauses = [dict(clause=obligation.get("clause", ""), go_clause=obligation["go_clause"], go_helpers=obligation.get("go_helpers"), go_imports=obligation.get("go_imports"))]
        how = "the violated clause evaluated on the real function's result"
    else:
        # a failed invariant / call precondition / untranslatable clause: the model's input is run through
        # the real function and every translatable postcondition of the property is evaluated on the result
        clauses = [c for c in ri.get("posts") or [] if pid in (c.get("props") or [])]
        how = "every translatable postcondition of the function evaluated on the real function's result (the failed obligation itself is not an input/output statement)"
        if not clauses and not safety:
            return {"confirmed": False, "reason": "no clause of this function can be evaluated on the real code: " + (obligation.get("go_why_not") or obligation["kind"])}
    used = {}

    def render(model_text):
        M = Model(model_text)
        args = {}
        for p in ri["params"]:
            g = model_value_to_go(p["kind"], p["gotype"], p["name"], M, extras, p.get("bits") or 64, bool(p.get("unsigned")))
            if g is None:
                return None, p
            args[p["name"]] = g
        used["M"] = M
        return args, None

    args, badp = render(result.get("model", ""))
    note = ""
    if args is None and smt_file:
        # solvers like huge strings: ask again for a model whose string parameters are short
        for bound in (8, 64, 2048):
            mt = small_model(smt_file, ri, (extras or {}).get("intmode", "math"), bound)
            if mt:
                args, badp = render(mt)
                if args is not None:
                    note = f"model re-requested with string parameters of at most {bound} bytes"
                    break
    if args is None:
        return {"confirmed": False, "reason": f"model value of parameter {badp['name']} cannot be rendered as Go {badp['kind']}"}
    cases = [("the solver's model", args)] + string_variants(used["M"], ri, extras or {}, args)
    src = build_auto_test(ri, safety, clauses, cases)
    rc, out = run_overlay_test(repo, ri["pkg_dir"], src, AUTO_TEST)
    m = re.search(r"REPLAY-VIOLATION \[([^\]]*)\]", out)
    return {"confirmed": rc != 0 and m is not None, "input": m.group(1) if m else "", "how": how + ("; " + note if note else ""), "args": args, "go_test_exit": rc, "output": out, "test_source": src, "auto": True, "pkg_dir": ri["pkg_dir"]}


def try_replay(root, repo, pid, obligation, result, smt_file, extras=None):
    tmpl = load_templates(root)
    fn = obligation["func"]
    entry = tmpl.get(fn)
    if not entry:
        try:
            r = auto_replay(repo, pid, obligation, result, extras, smt_file)
        except Exception as e:  # noqa: BLE001
            r = {"confirmed": False, "reason": "replay machinery error: " + repr(e)}
        if r is not None:
            return r
        return {"confirmed": False, "reason": "no replay route for " + fn + " (its parameters are heap structures); solver output attached"}
    if result["result"] != "sat":
        return {"confirmed": False, "reason": "solver gave no model (" + result["result"] + ")"}
    model = parse_model(result.get("model", ""))
    extras = extras or {}
    try:
        src = open(os.path.join(root, "replay_templates", entry["file"])).read()
        args = {}
        for name, kind in entry["params"].items():
            v = model.get("p_" + name)
            if v is None:
                return {"confirmed": False, "reason": f"model has no value for parameter {name}"}
            g = None
            if kind == "int":
                iv = smt_int(v)
                g = None if iv is None else str(iv)
            elif kind == "any":
                g = any_to_go(v, model, extras)
            elif kind == "string":
                g = str_to_go(v, model, extras)
            elif kind == "float":
                g = fp_to_go(v)
            elif kind == "bool":
                g = v
            if g is None:
                return {"confirmed": False, "reason": f"model value of {name} ({v[:80]}) is not replayable as {kind}"}
            args[name] = g
        test_src = src
        for k, v in args.items():
            test_src = test_src.replace("{{" + k + "}}", v)
        rc, out = run_overlay_test(repo, entry["pkg_dir"], test_src, entry["test"])
        return {"confirmed": rc != 0 and "REPLAY-VIOLATION" in out, "args": args, "go_test_exit": rc, "output": out, "test_source": test_src}
    except Exception as e:  # noqa: BLE001
        return {"confirmed": False, "reason": "replay machinery error: " + repr(e)}


def rerun(root, repo, rec):
    rep = rec.get("replay") or {}
    if rep.get("test_source") and rep.get("auto"):
        rc, out = run_overlay_test(repo, rep["pkg_dir"], rep["test_source"], AUTO_TEST)
        return {"confirmed": rc != 0 and "REPLAY-VIOLATION" in out, "go_test_exit": rc, "output": out}
    if rep.get("test_source"):
        tmpl = load_templates(root)
        entry = tmpl.get(rec.get("function"))
        if entry:
            rc, out = run_overlay_test(repo, entry["pkg_dir"], rep["test_source"], entry["test"])
            return {"confirmed": rc != 0 and "REPLAY-VIOLATION" in out, "go_test_exit": rc, "output": out}
    if rep.get("script"):
        return run_script_witness(root, repo, rep)
    return {"confirmed": False, "reason": "this record carries no replayable input (see solver output in the record)"}


def run_script_witness(root, repo, rep):
    return {"confirmed": False, "reason": "script witnesses are replayed by the known-findings canaries (selftest)"}
