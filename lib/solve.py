#!/usr/bin/env python3
"""Solver portfolio for plvc obligations.

Each obligation is a standalone SMT-LIB file whose last assertion is the negated
goal; `unsat` = discharged.  z3-new (5.x) is tried first with a short timeout;
on unknown/timeout, z3 (4.8) and cvc5 are raced with the full timeout.
"""
import os, re, subprocess, sys, time, json, shutil
from concurrent.futures import ThreadPoolExecutor

Z3NEW = shutil.which("z3-new") or "z3-new"
Z3OLD = "/usr/bin/z3"
CVC5 = shutil.which("cvc5") or "cvc5"


def _cvc5_text(path):
    """cvc5 wants produce-models before set-logic (already so) and no get-model after unsat noise."""
    return path


def run_solver(name, path, timeout, seed=0):
    t0 = time.time()
    if name == "z3-new":
        cmd = [Z3NEW, "-smt2", f"-T:{int(timeout)+1}", f"smt.random_seed={seed}", f"sat.random_seed={seed}", path]
    elif name == "z3":
        cmd = [Z3OLD, "-smt2", f"-T:{int(timeout)+1}", f"smt.random_seed={seed}", path]
    elif name == "cvc5":
        cmd = [CVC5, "--lang=smt2", f"--tlimit={int(timeout*1000)}", f"--seed={seed}", "--produce-models", path]
    else:
        raise ValueError(name)
    try:
        p = subprocess.run(cmd, capture_output=True, text=True, timeout=timeout + 5)
        out = p.stdout
    except subprocess.TimeoutExpired as e:
        out = "timeout"
    dt = time.time() - t0
    first = out.strip().split("\n", 1)[0].strip() if out.strip() else "error"
    if first not in ("sat", "unsat", "unknown", "timeout"):
        if "timeout" in first:
            first = "timeout"
        else:
            first = "error:" + first[:200]
    model = ""
    if first == "sat":
        model = out.split("\n", 1)[1] if "\n" in out else ""
    return first, dt, model


def _cmd(name, path, timeout, seed):
    if name == "z3-new":
        return [Z3NEW, "-smt2", f"-T:{int(timeout)+1}", f"smt.random_seed={seed}", f"sat.random_seed={seed}", path]
    if name == "z3":
        return [Z3OLD, "-smt2", f"-T:{int(timeout)+1}", f"smt.random_seed={seed}", path]
    if name == "cvc5":
        return [CVC5, "--lang=smt2", f"--tlimit={int(timeout*1000)}", f"--seed={seed}", "--produce-models", path]
    raise ValueError(name)


def _classify(out):
    first = out.strip().split("\n", 1)[0].strip() if out.strip() else "error"
    if first not in ("sat", "unsat", "unknown", "timeout"):
        first = "timeout" if "timeout" in first else "error:" + first[:200]
    model = ""
    if first == "sat":
        model = out.split("\n", 1)[1] if "\n" in out else ""
    return first, model


def race(names, path, timeout, seed=0, all_solvers=False):
    """run the solvers side by side; unless all answers are wanted, the first definite answer wins
    and the others are killed (so a decided obligation does not keep two cores busy until the
    time limit).  returns {name: (answer, seconds, model)}"""
    import tempfile
    t0 = time.time()
    procs = {}
    for n in names:
        f = tempfile.TemporaryFile(mode="w+")
        procs[n] = (subprocess.Popen(_cmd(n, path, timeout, seed), stdout=f, stderr=subprocess.DEVNULL, text=True), f)
    res = {}
    while len(res) < len(procs):
        for n, (p, f) in procs.items():
            if n in res:
                continue
            if p.poll() is not None:
                f.seek(0)
                a, m = _classify(f.read())
                f.close()
                res[n] = (a, time.time() - t0, m)
                if a in ("sat", "unsat") and not all_solvers:
                    for n2, (p2, f2) in procs.items():
                        if n2 not in res:
                            p2.kill()
                            p2.wait()
                            f2.close()
                            res[n2] = ("killed", time.time() - t0, "")
            elif time.time() - t0 > timeout + 5:
                p.kill()
                p.wait()
                f.close()
                res[n] = ("timeout", time.time() - t0, "")
        if len(res) < len(procs):
            time.sleep(0.02)
    return res


def solve(path, quick_t=3.0, full_t=20.0, seed=0, all_solvers=False):
    """returns dict(result, solver, seconds, model, answers)"""
    answers = {}
    r, dt, model = run_solver("z3-new", path, quick_t, seed)
    answers["z3-new"] = (r, round(dt, 3))
    if r in ("sat", "unsat") and not all_solvers:
        return dict(result=r, solver="z3-new", seconds=dt, model=model, answers=answers)
    best = (r, "z3-new", dt, model) if r in ("sat", "unsat") else None
    # race the others with the full timeout
    names = ["z3", "cvc5"]
    if not (r in ("sat", "unsat") or full_t <= quick_t):
        names.append("z3-new")
    got = race(names, path, full_t, seed, all_solvers)
    for s in names:
        rr, dd, mm = got[s]
        answers[s + ("#full" if s == "z3-new" else "")] = (rr, round(dd, 3))
        if rr in ("sat", "unsat") and best is None:
            best = (rr, s, dt + dd, mm)
    if best:
        return dict(result=best[0], solver=best[1], seconds=best[2], model=best[3], answers=answers)
    return dict(result="unknown", solver="", seconds=dt + max(a[1] for a in got.values()), model="", answers=answers)


def solve_many(paths, jobs=8, **kw):
    with ThreadPoolExecutor(max_workers=jobs) as ex:
        return list(ex.map(lambda p: solve(p, **kw), paths))


if __name__ == "__main__":
    d = sys.argv[1]
    idx = json.load(open(os.path.join(d, "index.json")))
    obs = idx["obligations"] or []
    if len(sys.argv) > 2:
        obs = [o for o in obs if sys.argv[2] in o["name"]]
    files = [(o, f) for o in obs for f in o["files"]]
    res = solve_many([os.path.join(d, f) for _, f in files], jobs=12)
    by = {}
    for (o, f), r in zip(files, res):
        by.setdefault(o["name"], []).append((f, r))
    bad = 0
    for o in obs:
        parts = by[o["name"]]
        if o.get("expect_sat"):
            fails = [(f, r) for f, r in parts if r["result"] == "unsat"]
        else:
            fails = [(f, r) for f, r in parts if r["result"] != "unsat"]
        if fails:
            bad += 1
            f, r = fails[0]
            print("FAIL", r["result"], f, o["name"], {k: v for k, v in r["answers"].items()})
        else:
            print("ok  ", "%.2f" % sum(r["seconds"] for _, r in parts), o["name"])
    print("failed:", bad, "of", len(obs))
