#!/usr/bin/env python3
"""debug helper: unsat core of an SMT-LIB file (names every top-level assert). usage: core.py file.smt2 [timeout]"""
import sys, subprocess, re
src = open(sys.argv[1]).read().split("\n")
out, names = ["(set-option :produce-unsat-cores true)"], {}
n = 0
for l in src:
    if l.startswith("(assert ") and l.endswith(")"):
        n += 1
        names["a%d" % n] = l
        out.append("(assert (! %s :named a%d))" % (l[8:-1], n))
    elif l.startswith("(get-model)"):
        continue
    elif l.startswith("(check-sat)"):
        out.append("(check-sat)")
        out.append("(get-unsat-core)")
    else:
        out.append(l)
open("/tmp/core_q.smt2", "w").write("\n".join(out))
t = sys.argv[2] if len(sys.argv) > 2 else "60"
r = subprocess.run(["z3-new", "-T:" + t, "/tmp/core_q.smt2"], capture_output=True, text=True).stdout
print(r.split("\n")[0])
for a in re.findall(r"a\d+", r.split("\n", 1)[1] if "\n" in r else ""):
    print(a, names[a][:700])
