#!/usr/bin/env python3
"""Validate seeded changes: in a scratch worktree of /repo (outside /repo and /verif),
with the patch: whole suite passes and the demo fails; without it: the demo passes.
Writes seeded/<id>/validation.json.  usage: tools_validate_seeds.py [ids...]"""
import json, os, subprocess, sys, shutil, tempfile
from concurrent.futures import ThreadPoolExecutor

ROOT = os.path.dirname(os.path.abspath(__file__))
ENV = dict(os.environ, GOFLAGS="-mod=mod", GOPROXY="off", GOSUMDB="off", GOTOOLCHAIN="local")


def sh(cmd, cwd, timeout=900):
    p = subprocess.run(cmd, cwd=cwd, env=ENV, shell=True, capture_output=True, text=True, timeout=timeout)
    return p.returncode, (p.stdout + p.stderr)[-3000:]


def validate(sid):
    d = os.path.join(ROOT, "seeded", sid)
    meta = json.load(open(os.path.join(d, "meta.json")))
    wt = tempfile.mkdtemp(prefix="seedval-" + sid + "-")
    os.rmdir(wt)
    res = {"id": sid}
    try:
        rc, out = sh(f"git -C /repo worktree add -q --detach {wt} HEAD", "/")
        if rc:
            return dict(res, error=out)
        demo = [f for f in os.listdir(d) if f.endswith("_test.go")]
        pkgdir = meta.get("demo_pkg_dir", "").strip("/")
        for f in demo:
            shutil.copy(os.path.join(d, f), os.path.join(wt, pkgdir, "zz_seed_" + f))
        run = meta["demo_run"]
        rc0, out0 = sh(run, wt)
        res["demo_passes_without_patch"] = rc0 == 0
        patch = "patch.ported.diff" if os.path.exists(os.path.join(d, "patch.ported.diff")) else "patch.diff"
        res["patch_used"] = patch
        rc, out = sh(f"git apply {d}/{patch}", wt)
        if rc:
            return dict(res, error="patch does not apply: " + out)
        rc1, out1 = sh(run, wt)
        res["demo_fails_with_patch"] = rc1 != 0
        res["demo_output_with_patch"] = out1[-800:]
        for f in demo:
            os.remove(os.path.join(wt, pkgdir, "zz_seed_" + f))
        rc2, out2 = sh("go test -vet=off -count=1 ./...", wt)
        res["suite_passes_with_patch"] = rc2 == 0
        if rc2:
            res["suite_output"] = out2[-1500:]
        res["valid"] = bool(res["demo_passes_without_patch"] and res["demo_fails_with_patch"] and res["suite_passes_with_patch"])
        res["repo_head"] = subprocess.run("git -C /repo rev-parse --short HEAD", shell=True, capture_output=True, text=True).stdout.strip()
        res["ran"] = [run + "  (clean: pass expected)", "git apply patch.diff", run + "  (patched: fail expected)", "go test -vet=off -count=1 ./...  (patched: pass expected)"]
        return res
    finally:
        subprocess.run(f"git -C /repo worktree remove --force {wt}", shell=True, capture_output=True)
        shutil.rmtree(wt, ignore_errors=True)


if __name__ == "__main__":
    ids = sys.argv[1:] or sorted(x for x in os.listdir(os.path.join(ROOT, "seeded")) if os.path.isdir(os.path.join(ROOT, "seeded", x)))
    with ThreadPoolExecutor(max_workers=4) as ex:
        for r in ex.map(validate, ids):
            json.dump(r, open(os.path.join(ROOT, "seeded", r["id"], "validation.json"), "w"), indent=1)
            print(r["id"], "valid" if r.get("valid") else "INVALID", {k: v for k, v in r.items() if k in ("error", "demo_passes_without_patch", "demo_fails_with_patch", "suite_passes_with_patch")}, flush=True)
