#!/usr/bin/env python3
"""Apply each seeded change to /repo, run the check(s) of its property, revert.
usage: tools_run_seeds.py [--props C01,C02] [seed-ids...]   (writes seeded/<id>/detection.json)"""
import json, os, subprocess, sys
ROOT = os.path.dirname(os.path.abspath(__file__))

def main():
    args = sys.argv[1:]
    props_override = None
    if args and args[0] == "--props":
        props_override = args[1].split(",")
        args = args[2:]
    ids = args or sorted(x for x in os.listdir(os.path.join(ROOT, "seeded")) if os.path.isdir(os.path.join(ROOT, "seeded", x)))
    man = json.load(open(os.path.join(ROOT, "MANIFEST.json")))
    claimed = {c["property_id"] for c in man["checks"]}
    for sid in ids:
        d = os.path.join(ROOT, "seeded", sid)
        meta = json.load(open(os.path.join(d, "meta.json")))
        props = props_override or [meta["property"]]
        st = subprocess.run("git -C /repo status --porcelain --untracked-files=no", shell=True, capture_output=True, text=True).stdout.strip()
        if st:
            print("repo not clean:", st); sys.exit(2)
        patch = os.path.join(d, "patch.diff")
        if os.path.exists(os.path.join(d, "patch.ported.diff")):
            patch = os.path.join(d, "patch.ported.diff")
        p = subprocess.run(f"git -C /repo apply {patch}", shell=True, capture_output=True, text=True)
        if p.returncode:
            print(sid, "PATCH DOES NOT APPLY", p.stderr.strip()[:200]); continue
        res = {"seed": sid, "checks": {}}
        try:
            for pid in props:
                if pid not in claimed:
                    res["checks"][pid] = {"skipped": "property not claimed"}
                    continue
                r = subprocess.run([os.path.join(ROOT, "check"), pid], capture_output=True, text=True, cwd=ROOT)
                viol = [l for l in r.stdout.split("\n") if l.startswith("VIOLATION")]
                res["checks"][pid] = {"exit": r.returncode, "violations": [v[:300] for v in viol[:6]], "n_violations": len(viol), "summary": r.stdout.strip().split("\n")[-1]}
        finally:
            subprocess.run("git -C /repo checkout -- .", shell=True)
        res["detected"] = any(c.get("exit") == 1 for c in res["checks"].values())
        res["repo_head"] = subprocess.run("git -C /repo rev-parse --short HEAD", shell=True, capture_output=True, text=True).stdout.strip()
        res["verif_head"] = subprocess.run("git -C /verif rev-parse --short HEAD", shell=True, capture_output=True, text=True).stdout.strip()
        json.dump(res, open(os.path.join(d, "detection.json"), "w"), indent=1)
        print(sid, "DETECTED" if res["detected"] else "missed", {k: (v.get("n_violations"), (v.get("violations") or [""])[0][60:200]) for k, v in res["checks"].items()}, flush=True)

main()
