#!/usr/bin/env python3
"""Like tools_run_benign.py, but every patch gets a throw-away copy of /repo's working tree (VERIF_REPO) and
its own scratch directory (VERIF_SCRATCH), several at a time; /repo itself is not touched.
usage: tools_run_benign_lanes.py [--lanes N] [names...]"""
import json, os, shutil, subprocess, sys, tempfile
from concurrent.futures import ThreadPoolExecutor
ROOT = os.path.dirname(os.path.abspath(__file__))


def run(bid):
    d = os.path.join(ROOT, "benign", bid)
    meta = json.load(open(os.path.join(d, "meta.json")))
    tmp = tempfile.mkdtemp(prefix="verif-benign-")
    try:
        wt = os.path.join(tmp, "tree")
        subprocess.run(["rsync", "-a", "--exclude", ".git", "/repo/", wt + "/"], check=True)
        ap = subprocess.run(["git", "apply", "--unsafe-paths", "--directory", wt, os.path.join(d, "patch.diff")], capture_output=True, text=True, cwd="/")
        if ap.returncode != 0:
            ap = subprocess.run(["patch", "-p1", "-s", "-i", os.path.join(d, "patch.diff")], capture_output=True, text=True, cwd=wt)
        if ap.returncode != 0:
            return bid, {"name": bid, "quiet": False, "error": "patch does not apply"}
        env = dict(os.environ, VERIF_REPO=wt, VERIF_SCRATCH=os.path.join(tmp, "out"), VERIF_JOBS=os.environ.get("VERIF_JOBS", "5"))
        r = subprocess.run([os.path.join(ROOT, "check"), meta["property"]], capture_output=True, text=True, cwd=ROOT, env=env)
        viol = [l for l in r.stdout.split("\n") if l.startswith("VIOLATION")]
        ok = r.returncode == 0 and not viol
        return bid, {"name": bid, "property": meta["property"], "exit": r.returncode, "violations": [v.replace(tmp, "<copy>")[:300] for v in viol[:6]],
                     "summary": r.stdout.strip().split("\n")[-1], "quiet": ok, "how": "copy of /repo's working tree with the patch applied (VERIF_REPO)"}
    finally:
        shutil.rmtree(tmp, ignore_errors=True)


def main():
    args = sys.argv[1:]
    lanes = 3
    if args and args[0] == "--lanes":
        lanes = int(args[1]); args = args[2:]
    ids = args or sorted(x for x in os.listdir(os.path.join(ROOT, "benign")) if os.path.isdir(os.path.join(ROOT, "benign", x)))
    bad = 0
    with ThreadPoolExecutor(max_workers=lanes) as ex:
        for bid, res in ex.map(run, ids):
            json.dump(res, open(os.path.join(ROOT, "benign", bid, "result.json"), "w"), indent=1)
            print(bid, "quiet" if res["quiet"] else "ALARM", res.get("summary", res.get("error")), [v[60:220] for v in res.get("violations", [])[:3]], flush=True)
            bad += 0 if res["quiet"] else 1
    sys.exit(1 if bad else 0)


main()
