#!/bin/sh
# usage: tools_import_seed.sh <pid> <round>   - copies /tmp/seed<round>/out/<pid> to seeded/<pid>-<round>, validates it, runs the check on it
set -e
pid=$1; rnd=$2; d=/verif/seeded/$pid-$rnd
mkdir -p $d
cp /tmp/seed$rnd/out/$pid/patch.diff /tmp/seed$rnd/out/$pid/meta.json $d/
cp /tmp/seed$rnd/out/$pid/seed_demo_test.go $d/demo_test.go
cd /verif && python3 tools_validate_seeds.py $pid-$rnd && python3 tools_run_seeds_lanes.py $pid-$rnd
