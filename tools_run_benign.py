#!/usr/bin/env python3
"""Apply each behaviour-preserving change of benign/<name>/ to /repo, run the check of its property,
revert.  Every one must pass (exit 0, no VIOLATION line): these are the refactorings the machinery
promises not to raise an alarm on.  Writes benign/<name>/result.json.
usage: tools_run_benign.py [names...]"""
import json, os, subprocess, sys
ROOT = os.path.dirname(os.path.abspath(__file__))


def main():
    ids = sys.argv[1:] or sorted(x for x in os.listdir(os.path.join(ROOT, "benign")) if os.path.isdir(os.path.join(ROOT, "benign", x)))
    bad = 0
    for bid in ids:
        d = os.path.join(ROOT, "benign", bid)
        meta = json.load(open(os.path.join(d, "meta.json")))
        st = subprocess.run("git -C /repo status --porcelain --untracked-files=no", shell=True, capture_output=True, text=True).stdout.strip()
        if st:
            print("repo not clean:", st)
            sys.exit(2)
        p = subprocess.run(f"git -C /repo apply {os.path.join(d, 'patch.diff')}", shell=True, capture_output=True, text=True)
        if p.returncode:
            print(bid, "PATCH DOES NOT APPLY", p.stderr.strip()[:200])
            bad += 1
            continue
        try:
            b = subprocess.run("go build ./...", shell=True, cwd="/repo", capture_output=True, text=True,
                               env=dict(os.environ, GOFLAGS="-mod=mod", GOPROXY="off", GOSUMDB="off", GOTOOLCHAIN="local"))
            r = subprocess.run([os.path.join(ROOT, "check"), meta["property"]], capture_output=True, text=True, cwd=ROOT)
        finally:
            subprocess.run("git -C /repo checkout -- .", shell=True)
        viol = [l for l in r.stdout.split("\n") if l.startswith("VIOLATION")]
        ok = b.returncode == 0 and r.returncode == 0 and not viol
        res = {"name": bid, "property": meta["property"], "builds": b.returncode == 0, "exit": r.returncode, "violations": [v[:300] for v in viol[:6]],
               "summary": r.stdout.strip().split("\n")[-1], "quiet": ok}
        json.dump(res, open(os.path.join(d, "result.json"), "w"), indent=1)
        print(bid, "quiet" if ok else "ALARM", res["summary"], [v[60:220] for v in viol[:3]], flush=True)
        bad += 0 if ok else 1
    sys.exit(1 if bad else 0)


main()
