package main

// Stable obligation names: <pkg>.<func>/<kind>/<normalised source text>#<ordinal>.
// No line numbers, no SSA register names.

import (
	"bytes"
	"fmt"
	"go/ast"
	"go/printer"
	"go/token"
	"strings"

	"golang.org/x/tools/go/ast/astutil"
	"golang.org/x/tools/go/ssa"
)

func (g *Gen) fileOf(pos token.Pos) *ast.File {
	if !pos.IsValid() {
		return nil
	}
	tf := g.fset.File(pos)
	if tf == nil {
		return nil
	}
	return g.filesByName[tf.Name()]
}

func (g *Gen) exprText(n ast.Node) string {
	var b bytes.Buffer
	printer.Fprint(&b, g.fset, n)
	s := b.String()
	s = strings.Join(strings.Fields(s), " ")
	if len(s) > 90 {
		s = s[:87] + "..."
	}
	return s
}

// srcText finds the source expression an instruction position belongs to.
// want selects the node class: "index", "slice", "sel", "call", "assert", "binary", "any".
func (g *Gen) srcText(pos token.Pos, want string) string {
	f := g.fileOf(pos)
	if f == nil {
		return ""
	}
	path, _ := astutil.PathEnclosingInterval(f, pos, pos)
	for _, n := range path {
		switch x := n.(type) {
		case *ast.IndexExpr:
			if want == "index" || want == "any" {
				return g.exprText(x)
			}
		case *ast.SliceExpr:
			if want == "slice" || want == "any" {
				return g.exprText(x)
			}
		case *ast.SelectorExpr:
			if want == "sel" || want == "any" {
				return g.exprText(x)
			}
		case *ast.CallExpr:
			if want == "call" || want == "any" || want == "sel" {
				return g.exprText(x)
			}
		case *ast.TypeAssertExpr:
			if want == "assert" || want == "any" {
				return g.exprText(x)
			}
		case *ast.BinaryExpr:
			if want == "binary" || want == "any" {
				return g.exprText(x)
			}
		case *ast.StarExpr, *ast.UnaryExpr, *ast.CompositeLit, *ast.RangeStmt:
			if want == "any" {
				if r, ok := x.(*ast.RangeStmt); ok {
					return "range " + g.exprText(r.X)
				}
				return g.exprText(x)
			}
		case *ast.AssignStmt, *ast.ReturnStmt, *ast.ExprStmt, *ast.IfStmt, *ast.ForStmt, *ast.SwitchStmt, *ast.TypeSwitchStmt, *ast.IncDecStmt:
			if s, ok := x.(*ast.IncDecStmt); ok {
				return g.exprText(s)
			}
			if s, ok := x.(*ast.AssignStmt); ok && len(s.Lhs) == 1 {
				return g.exprText(s)
			}
			// statement reached without finding the wanted node class: give the first line
			t := g.exprText(x)
			if i := strings.Index(t, "{"); i > 0 {
				t = strings.TrimSpace(t[:i])
			}
			return t
		}
	}
	return ""
}

func funcDisplayName(fn *ssa.Function) string {
	name := fn.Name()
	if recv := fn.Signature.Recv(); recv != nil {
		t := types_TypeString(recv.Type())
		name = "(" + t + ")." + fn.Name()
	}
	pkg := ""
	if fn.Pkg != nil {
		pkg = fn.Pkg.Pkg.Name() + "."
	}
	return pkg + name
}

func (fg *FuncGen) oblName(kind, text string) string {
	base := fmt.Sprintf("%s/%s/%s", funcDisplayName(fg.fn), kind, text)
	fg.ordinals[base]++
	return fmt.Sprintf("%s#%d", base, fg.ordinals[base])
}
