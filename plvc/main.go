package main

// plvc: contract-based VC generator for GuanceCloud/platypus.
//
//   plvc -repo /repo -out DIR [-props C01,C02] [-funcs pat] [-dump]
//
// Loads the module with build tag `verif` (so the comment-only contract files are
// seen), builds go/ssa in NaiveForm, generates one SMT-LIB query per obligation
// and an index (index.json) describing them.

import (
	"encoding/json"
	"flag"
	"fmt"
	"go/ast"
	"go/token"
	"go/types"
	"os"
	"path/filepath"
	"sort"
	"strings"

	"golang.org/x/tools/go/packages"
	"golang.org/x/tools/go/ssa"
	"golang.org/x/tools/go/ssa/ssautil"
)

type Gen struct {
	prog           *ssa.Program
	fset           *token.FileSet
	pkgs           []*packages.Package
	byPath         map[string]*packages.Package
	allTypes       map[string]*types.Package
	filesByName    map[string]*ast.File
	cs             *ContractSet
	modPath        string
	sizes          types.Sizes
	funcIDs        map[string]int
	typeByKey      map[string]types.Type
	bindErrors     []string
	modCache       map[*ssa.Function]*ModSet
	modBusy        map[*ssa.Function]bool
	traced         map[string]bool
	specDepth      int
	noOverflowObl  bool
	loopCache      map[*ssa.Function][]loopStmt
	tracedArgTypes map[string][]types.Type
	tracedResTypes map[string][]types.Type
	tracedPkg      map[string]string
	traceSpecMemo  map[*SpecFun]int
	tracedByPkg    map[string][2][]types.Type
	curPkgPath     string
	tracedFnType   map[string]types.Type
	modDirty       bool
	funcSet        map[*ssa.Function]bool
	ctCache        map[*ssa.Function]ctEntry
	mapNonNil      map[string][]string
	boxNonNil      map[string][]string
	callVacuity    bool                 // -callvac
	selfContained  []string             // -selfcontained: the requested properties (experimental)
	cwUsed         map[string]bool      // callees some contract asks `calledwith` about
	oldSyms        map[string]*symEntry // symbol table of the pinned tree (-symtab)
	renameCache    map[*ssa.Function]map[string]string
}

type loopStmt struct {
	ast.Node
	bodyPos token.Pos
}

func (g *Gen) inModule(path string) bool {
	return path == g.modPath || strings.HasPrefix(path, g.modPath+"/")
}

func (g *Gen) pkgByPath(path string) *types.Package {
	if p, ok := g.allTypes[path]; ok {
		return p
	}
	return nil
}

func (g *Gen) importedPkg(from *types.Package, name string) *types.Package {
	for _, imp := range from.Imports() {
		if imp.Name() == name {
			return imp
		}
	}
	// any package of the module with that name (contract files have no imports of their own)
	var cands []string
	for path, p := range g.allTypes {
		if p.Name() == name && g.inModule(path) {
			cands = append(cands, path)
		}
	}
	sort.Strings(cands)
	if len(cands) > 0 {
		return g.allTypes[cands[0]]
	}
	for path, p := range g.allTypes {
		if p.Name() == name {
			cands = append(cands, path)
		}
	}
	sort.Strings(cands)
	if len(cands) > 0 {
		return g.allTypes[cands[0]]
	}
	return nil
}

func (g *Gen) lookupSpec(name string, pkg *types.Package) *SpecFun {
	if i := strings.Index(name, "."); i > 0 {
		if p := g.importedPkg(pkg, name[:i]); p != nil {
			return g.cs.Specs[p.Path()+"."+name[i+1:]]
		}
		return nil
	}
	if sf := g.cs.Specs[pkg.Path()+"."+name]; sf != nil {
		return sf
	}
	// unique by bare name across packages
	var found *SpecFun
	for _, k := range sortedKeys(g.cs.Specs) {
		if strings.HasSuffix(k, "."+name) {
			if found != nil {
				return nil
			}
			found = g.cs.Specs[k]
		}
	}
	return found
}

// resolveType parses a Go type expression: *T, []T, [N]T, map[K]V, pkg.T, T, any.
func (g *Gen) resolveType(text string, pkg *types.Package) types.Type {
	text = strings.TrimSpace(text)
	switch {
	case text == "":
		return nil
	case strings.HasPrefix(text, "*"):
		if t := g.resolveType(text[1:], pkg); t != nil {
			return g.canon(types.NewPointer(t))
		}
		return nil
	case strings.HasPrefix(text, "[]"):
		if t := g.resolveType(text[2:], pkg); t != nil {
			return g.canon(types.NewSlice(t))
		}
		return nil
	case strings.HasPrefix(text, "map["):
		d := 0
		for i, c := range text {
			if c == '[' {
				d++
			} else if c == ']' {
				d--
				if d == 0 {
					k := g.resolveType(text[4:i], pkg)
					v := g.resolveType(text[i+1:], pkg)
					if k == nil || v == nil {
						return nil
					}
					return g.canon(types.NewMap(k, v))
				}
			}
		}
		return nil
	case strings.HasPrefix(text, "["):
		i := strings.Index(text, "]")
		var n int64
		fmt.Sscanf(text[1:i], "%d", &n)
		if t := g.resolveType(text[i+1:], pkg); t != nil {
			return g.canon(types.NewArray(t, n))
		}
		return nil
	}
	if text == "struct{}" {
		return types.NewStruct(nil, nil)
	}
	if text == "any" || text == "interface{}" {
		return types.Universe.Lookup("any").Type()
	}
	if i := strings.Index(text, "."); i > 0 {
		p := g.importedPkg(pkg, text[:i])
		if p == nil {
			return nil
		}
		if tn, ok := p.Scope().Lookup(text[i+1:]).(*types.TypeName); ok {
			return tn.Type()
		}
		return nil
	}
	for _, c := range text {
		if !(c == '_' || c >= 'a' && c <= 'z' || c >= 'A' && c <= 'Z' || c >= '0' && c <= '9') {
			return nil
		}
	}
	if tn, ok := pkg.Scope().Lookup(text).(*types.TypeName); ok {
		return tn.Type()
	}
	if tn, ok := types.Universe.Lookup(text).(*types.TypeName); ok {
		return tn.Type()
	}
	return nil
}

// canon returns the type object already known for a structurally identical type, so
// that type ids agree between code and contracts.
func (g *Gen) canon(t types.Type) types.Type {
	k := typeKey(t)
	if c, ok := g.typeByKey[k]; ok {
		return c
	}
	g.typeByKey[k] = t
	return t
}

func (g *Gen) lookupLocal(fn *ssa.Function, pos token.Pos, name string) (*types.Var, bool) {
	pkg := g.byPath[fn.Pkg.Pkg.Path()]
	if pkg == nil {
		return nil, false
	}
	f := g.fileOf(pos)
	if f == nil {
		return nil, false
	}
	sc := pkg.TypesInfo.Scopes[f]
	if sc == nil {
		return nil, false
	}
	inner := sc.Innermost(pos)
	if inner == nil {
		return nil, false
	}
	_, obj := inner.LookupParent(name, pos)
	v, ok := obj.(*types.Var)
	if !ok || v.Parent() == nil || v.Parent() == pkg.Types.Scope() || v.Parent() == types.Universe {
		return nil, false
	}
	return v, true
}

func (g *Gen) loopStmts(fn *ssa.Function) []loopStmt {
	if ls, ok := g.loopCache[fn]; ok {
		return ls
	}
	var out []loopStmt
	syn := fn.Syntax()
	if syn != nil {
		ast.Inspect(syn, func(n ast.Node) bool {
			switch x := n.(type) {
			case *ast.FuncLit:
				return n == syn
			case *ast.ForStmt:
				out = append(out, loopStmt{x, x.Body.Lbrace + 1})
			case *ast.RangeStmt:
				out = append(out, loopStmt{x, x.Body.Lbrace + 1})
			}
			return true
		})
	}
	g.loopCache[fn] = out
	return out
}

func (g *Gen) findGlobal(pkg *types.Package, name string) *ssa.Global {
	p := pkg
	if i := strings.Index(name, "."); i > 0 {
		p = g.importedPkg(pkg, name[:i])
		name = name[i+1:]
	}
	if p != nil {
		if sp := g.prog.Package(p); sp != nil {
			if gl, ok := sp.Members[name].(*ssa.Global); ok {
				return gl
			}
		}
	}
	// contracts of dependencies (extern blocks) are shared: look the name up in every module package
	var found *ssa.Global
	for _, path := range sortedKeys(g.allTypes) {
		if !g.inModule(path) {
			continue
		}
		if sp := g.prog.Package(g.allTypes[path]); sp != nil {
			if gl, ok := sp.Members[name].(*ssa.Global); ok {
				if found != nil {
					return nil // ambiguous
				}
				found = gl
			}
		}
	}
	return found
}

func (g *Gen) needConcatAxiom(e *Enc) {
	if e.bv {
		return // bit-vector mode is used for arithmetic safety only: no quantified string axioms
	}
	I := e.INT()
	e.usesQuant = true
	e.axiom(fmt.Sprintf("(forall ((a Str) (b Str) (i %s)) (! (= (sbyte (sconcat a b) i) (ite %s (sbyte a i) (sbyte b %s))) :pattern ((sbyte (sconcat a b) i))))",
		I, e.iop("<", "i", "(slen a)", true), e.iop("-", "i", "(slen a)", true)))
}

func (g *Gen) needSubstrAxiom(e *Enc) {
	if e.bv {
		return
	}
	I := e.INT()
	e.usesQuant = true
	e.axiom(fmt.Sprintf("(forall ((s Str) (lo %s) (hi %s) (i %s)) (! (= (sbyte (ssub s lo hi) i) (sbyte s %s)) :pattern ((sbyte (ssub s lo hi) i))))",
		I, I, I, e.iop("+", "lo", "i", true)))
}

func (g *Gen) calleeResType(name string, i int) types.Type {
	if p, ok := g.tracedByPkg[g.curPkgPath+"\x00"+name]; ok && i < len(p[1]) {
		return p[1][i]
	}
	t, ok := g.tracedResTypes[name]
	if !ok || i >= len(t) {
		return nil
	}
	return t[i]
}

// calleeArgType: type of the j-th argument (receiver first) of the traced callee.
func (g *Gen) calleeArgType(name string, j int) types.Type {
	if j == -1 {
		return g.tracedFnType[name]
	}
	if p, ok := g.tracedByPkg[g.curPkgPath+"\x00"+name]; ok && j >= 0 && j < len(p[0]) {
		return p[0][j]
	}
	t, ok := g.tracedArgTypes[name]
	if !ok || j >= len(t) {
		return nil
	}
	return t[j]
}

// ---- functions to verify --------------------------------------------------------------------

func (g *Gen) allFunctions() []*ssa.Function {
	var fns []*ssa.Function
	for fn := range ssautil.AllFunctions(g.prog) {
		if fn.Pkg == nil || !g.inModule(fn.Pkg.Pkg.Path()) || fn.Synthetic != "" || len(fn.Blocks) == 0 {
			continue
		}
		if fn.Parent() != nil {
			continue // closures are not verified on their own
		}
		fns = append(fns, fn)
	}
	sort.Slice(fns, func(i, j int) bool { return fns[i].String() < fns[j].String() })
	return fns
}

func (g *Gen) newFuncGen(fn *ssa.Function, ct *Contract, props []string) *FuncGen {
	bv := ct != nil && ct.IntMode == "bv64"
	fg := &FuncGen{g: g, enc: newEnc(bv), fn: fn, ct: ct, vals: map[ssa.Value]Val{}, comps: map[string]*Comp{},
		ghostSort: map[string]string{}, ghostInits: map[string]string{}, paramVals: map[string]Val{}, ordinals: map[string]int{},
		noteSeen: map[string]bool{}, iterCells: map[*ssa.Range]string{}, callCount: map[string]int{}, nilChecked: map[string]bool{},
		constLen: map[string]int{}, blockOrder: map[*ssa.BasicBlock]int{}, invAssumed: map[string]bool{}, invTouched: map[string]touched{}, dirty: map[string]bool{}, lastAssert: map[string]int{}, known: map[string]touched{}, depsCache: map[string][]string{}, ownMods: map[string][]string{}, closures: map[ssa.Value]*ssa.MakeClosure{}}
	fg.props = props
	return fg
}

type outIndex struct {
	Obligations []*Obligation        `json:"obligations"`
	Functions   []string             `json:"functions"`
	Notes       map[string][]string  `json:"notes"`
	BindErrors  []string             `json:"bind_errors"`
	Contracts   int                  `json:"contracts"`
	Externs     []string             `json:"externs"`
	Unbound     []string             `json:"unbound"`
	Extra       map[string]any       `json:"extra,omitempty"`
	Symtab      map[string]*symEntry `json:"symtab,omitempty"`
}

func main() {
	repo := flag.String("repo", "/repo", "repository root")
	out := flag.String("out", "", "output directory")
	propsF := flag.String("props", "", "comma-separated property ids (empty = all)")
	funcsF := flag.String("funcs", "", "only functions whose display name contains this")
	dump := flag.Bool("dump", false, "print SSA of selected functions")
	frameF := flag.Bool("frames", false, "print inferred frames of selected functions")
	noSlice := flag.Bool("noslice", false, "write full (unsliced) queries")
	callVac := flag.Bool("callvac", false, "add a reachability (vacuity) obligation after every call site")
	selfC := flag.Bool("selfcontained", false, "experimental: an obligation that the requested properties do not carry is not assumed after it is emitted (a run then rests only on what it checks itself)")
	symtabF := flag.String("symtab", "", "symbol table of the pinned tree (baseline/symtab.json): tolerate renamed parameters/locals, inline helpers that are new")
	flag.Parse()
	if *out == "" {
		fmt.Fprintln(os.Stderr, "need -out")
		os.Exit(2)
	}
	os.MkdirAll(*out, 0o755)
	g, err := load(*repo)
	if err != nil {
		fmt.Fprintln(os.Stderr, "load:", err)
		os.Exit(2)
	}
	g.callVacuity = *callVac
	g.oldSyms = loadSymtab(*symtabF)
	g.renameCache = map[*ssa.Function]map[string]string{}
	var want []string
	if *propsF != "" {
		want = strings.Split(*propsF, ",")
	}
	if *selfC {
		g.selfContained = want
	}
	idx := &outIndex{Notes: map[string][]string{}, Extra: map[string]any{}}
	idx.Symtab = g.symtabOfTree()
	g.bindContracts(idx)

	type job struct {
		fn    *ssa.Function
		ct    *Contract
		props []string
	}
	var jobs []job
	for _, fn := range g.allFunctions() {
		if g.isNewFunction(fn) {
			if ct0, _ := g.contractFor0(fn); ct0 == nil {
				// a helper that did not exist when the contracts were written: it is verified where it is
				// called (executed inline there), not on its own with no precondition
				idx.Notes[funcDisplayName(fn)] = append(idx.Notes[funcDisplayName(fn)], "new function without contract: verified through its call sites (inline), not on its own")
				continue
			}
		}
		ct, _ := g.contractFor(fn)
		var props []string
		if ct != nil {
			props = append(props, ct.Props...)
			for _, cl := range append(append([]*Clause{}, ct.Requires...), ct.Ensures...) {
				props = append(props, cl.Props...)
			}
			for _, l := range ct.Loops {
				for _, cl := range l.Invariants {
					props = append(props, cl.Props...)
				}
			}
		}
		for _, sw := range g.cs.Sweeps {
			if sw.Pkg != fn.Pkg.Pkg.Path() {
				continue
			}
			if sweepMatch(sw, methodKey(fn)) {
				props = append(props, sw.Props...)
			}
		}
		for _, sw := range g.cs.FrameSweeps {
			if sw.Pkg == fn.Pkg.Pkg.Path() && sweepMatch(sw, methodKey(fn)) {
				props = append(props, sw.Props...)
			}
		}
		props = uniq(props)
		if len(props) == 0 {
			continue
		}
		if *funcsF != "" && !strings.Contains(funcDisplayName(fn), *funcsF) {
			continue
		}
		if len(want) > 0 {
			hit := false
			for _, w := range want {
				if hasProp(props, w) {
					hit = true
				}
			}
			if !hit {
				continue
			}
		}
		jobs = append(jobs, job{fn, ct, props})
	}
	if *frameF {
		for _, j := range jobs {
			ms := g.inferredMods(j.fn)
			fmt.Printf("%s: all=%v %v\n", funcDisplayName(j.fn), ms.All, sortedKeys(ms.Descs))
		}
	}
	n := 0
	for _, j := range jobs {
		if *dump {
			j.fn.WriteTo(os.Stdout)
			for _, af := range j.fn.AnonFuncs {
				af.WriteTo(os.Stdout)
			}
		}
		defProps := j.props
		{
			// properties that only come from a framesweep tag frame obligations, nothing else
			var fsOnly []string
			for _, sw := range g.cs.FrameSweeps {
				if sw.Pkg == j.fn.Pkg.Pkg.Path() && sweepMatch(sw, methodKey(j.fn)) {
					fsOnly = append(fsOnly, sw.Props...)
				}
			}
			if len(fsOnly) > 0 {
				own := map[string]bool{}
				if j.ct != nil {
					for _, p := range j.ct.Props {
						own[p] = true
					}
					for _, cl := range append(append([]*Clause{}, j.ct.Requires...), j.ct.Ensures...) {
						for _, p := range cl.Props {
							own[p] = true
						}
					}
				}
				for _, sw := range g.cs.Sweeps {
					if sw.Pkg == j.fn.Pkg.Pkg.Path() && sweepMatch(sw, methodKey(j.fn)) {
						for _, p := range sw.Props {
							own[p] = true
						}
					}
				}
				var keep []string
				for _, p := range defProps {
					if own[p] || !hasProp(fsOnly, p) {
						keep = append(keep, p)
					}
				}
				defProps = keep
			}
		}
		if j.ct != nil && len(j.ct.Props) > 0 {
			defProps = j.ct.Props
		} else {
			// sweep tags
			var sp []string
			for _, sw := range g.cs.Sweeps {
				if sw.Pkg != j.fn.Pkg.Pkg.Path() {
					continue
				}
				if sweepMatch(sw, methodKey(j.fn)) {
					sp = append(sp, sw.Props...)
				}
			}
			if len(sp) > 0 {
				defProps = uniq(sp)
			}
		}
		g.curPkgPath = j.fn.Pkg.Pkg.Path()
		fg := g.newFuncGen(j.fn, j.ct, defProps)
		func() {
			defer func() {
				if r := recover(); r != nil {
					if se, ok := r.(specError); ok {
						g.bindErrors = append(g.bindErrors, se.msg)
						return
					}
					g.bindErrors = append(g.bindErrors, fmt.Sprintf("internal error in %s: %v", funcDisplayName(j.fn), r))
					if os.Getenv("PLVC_PANIC") != "" {
						panic(r)
					}
				}
			}()
			fg.run()
		}()
		idx.Functions = append(idx.Functions, funcDisplayName(j.fn))
		if len(fg.notes) > 0 {
			idx.Notes[funcDisplayName(j.fn)] = fg.notes
		}
		pre := fg.enc.prelude()
		var infos, axInfos []assertInfo
		var declared map[string]bool
		fx := map[string]any{"type_ids": fg.enc.typeOrder, "str_consts": fg.enc.strByName(), "intmode": map[bool]string{true: "bv64", false: "math"}[fg.enc.bv]}
		idx.Extra[funcDisplayName(j.fn)] = fx
		ri := g.replayInfoFor(j.fn, *repo)
		if ri != nil {
			fx["replay"] = ri
			seenPost := map[string]bool{}
			for _, o := range fg.obls {
				if o.Kind == "post" && o.Clause != "" {
					o.GoClause, o.GoHelpers, o.GoImports, o.GoWhyNot = g.goClause(j.fn, o.Clause)
					if o.GoClause != "" && !seenPost[o.Clause] {
						seenPost[o.Clause] = true
						ri.Posts = append(ri.Posts, replayPost{Clause: o.Clause, Props: o.Props, GoClause: o.GoClause, GoHelpers: o.GoHelpers, GoImports: o.GoImports})
					}
				}
			}
		}
		for _, o := range fg.obls {
			if len(want) > 0 {
				hit := false
				for _, w := range want {
					if hasProp(o.Props, w) {
						hit = true
					}
				}
				if !hit {
					continue
				}
			}
			o.Quant = fg.enc.usesQuant
			goals := []string{o.Goal}
			if len(o.Parts) > 1 && !o.ExpectSat {
				goals = nil
				parts := o.Parts
				const maxParts = 10
				if len(parts) > maxParts {
					// group the conjuncts into at most maxParts chunks
					var grouped []string
					per := (len(parts) + maxParts - 1) / maxParts
					for i := 0; i < len(parts); i += per {
						j := i + per
						if j > len(parts) {
							j = len(parts)
						}
						grouped = append(grouped, and(parts[i:j]...))
					}
					parts = grouped
				}
				for _, p := range parts {
					goals = append(goals, and(o.Cond, not(p)))
				}
			}
			for _, gl := range goals {
				n++
				f := fmt.Sprintf("o%05d.smt2", n)
				o.Files = append(o.Files, f)
				var b strings.Builder
				b.WriteString("; " + o.Name + "\n")
				if *noSlice || o.ExpectSat {
					b.WriteString(pre)
					for _, a := range fg.asserts[:o.Prefix] {
						b.WriteString("(assert " + a + ")\n")
					}
				} else {
					if infos == nil {
						declared = fg.enc.declaredNames()
						for _, a := range fg.asserts {
							infos = append(infos, analyseAssert(a, declared))
						}
						for _, a := range fg.enc.preludeAsserts() {
							axInfos = append(axInfos, analyseAssert(a, declared))
						}
					}
					// axioms / string facts take part in the cone computation as ordinary assertions
					all := append(append([]assertInfo{}, axInfos...), infos[:o.Prefix]...)
					inc := sliceFor(all, len(all), symbolsOf(gl, declared))
					b.WriteString(fg.enc.preludeDecls())
					for i, ai := range all {
						if inc[i] {
							b.WriteString("(assert " + ai.text + ")\n")
						}
					}
				}
				b.WriteString("(assert " + gl + ")\n(check-sat)\n(get-model)\n")
				os.WriteFile(filepath.Join(*out, f), []byte(b.String()), 0o644)
			}
			o.File = o.Files[0]
			idx.Obligations = append(idx.Obligations, o)
		}
	}
	idx.BindErrors = g.bindErrors
	idx.Contracts = len(g.cs.ByKey)
	for _, k := range sortedKeys(g.cs.ByKey) {
		if strings.HasPrefix(k, "extern ") || g.cs.ByKey[k].Trusted {
			idx.Externs = append(idx.Externs, k)
		}
	}
	data, _ := json.MarshalIndent(idx, "", " ")
	os.WriteFile(filepath.Join(*out, "index.json"), data, 0o644)
	fmt.Printf("plvc: %d functions, %d obligations, %d binding errors\n", len(idx.Functions), len(idx.Obligations), len(idx.BindErrors)+len(idx.Unbound))
}

func (fg *FuncGen) taintedBefore(o *Obligation) string { return o.Tainted }

func uniq(xs []string) []string {
	seen := map[string]bool{}
	var out []string
	for _, x := range xs {
		if !seen[x] {
			seen[x] = true
			out = append(out, x)
		}
	}
	sort.Strings(out)
	return out
}

func load(repo string) (*Gen, error) {
	cfg := &packages.Config{Mode: packages.LoadSyntax | packages.NeedModule, Dir: repo, BuildFlags: []string{"-tags=verif"},
		Env: append(os.Environ(), "GOFLAGS=-mod=mod", "GOPROXY=off", "GOSUMDB=off", "GOTOOLCHAIN=local")}
	pkgs, err := packages.Load(cfg, "./...")
	if err != nil {
		return nil, err
	}
	g := &Gen{fset: pkgs[0].Fset, pkgs: pkgs, byPath: map[string]*packages.Package{}, allTypes: map[string]*types.Package{},
		filesByName: map[string]*ast.File{}, funcIDs: map[string]int{}, typeByKey: map[string]types.Type{},
		modCache: map[*ssa.Function]*ModSet{}, modBusy: map[*ssa.Function]bool{}, traced: map[string]bool{}, loopCache: map[*ssa.Function][]loopStmt{},
		tracedArgTypes: map[string][]types.Type{}, tracedResTypes: map[string][]types.Type{}, tracedPkg: map[string]string{}, tracedFnType: map[string]types.Type{}, ctCache: map[*ssa.Function]ctEntry{}}
	g.sizes = types.SizesFor("gc", "amd64")
	var nerr int
	packages.Visit(pkgs, nil, func(p *packages.Package) {
		g.allTypes[p.PkgPath] = p.Types
		for _, e := range p.Errors {
			if nerr < 5 {
				fmt.Fprintln(os.Stderr, "package error:", e)
			}
			nerr++
		}
	})
	if nerr > 0 {
		return nil, fmt.Errorf("%d package errors (the tree does not type-check)", nerr)
	}
	for _, p := range pkgs {
		g.byPath[p.PkgPath] = p
		if p.Module != nil && g.modPath == "" {
			g.modPath = p.Module.Path
		}
		for i, f := range p.Syntax {
			g.filesByName[p.CompiledGoFiles[i]] = f
		}
	}
	prog, _ := ssautil.Packages(pkgs, ssa.NaiveForm|ssa.GlobalDebug)
	prog.Build()
	g.prog = prog
	// named types of the module, for canonical type ids
	for _, p := range pkgs {
		sc := p.Types.Scope()
		for _, n := range sc.Names() {
			if tn, ok := sc.Lookup(n).(*types.TypeName); ok {
				g.typeByKey[typeKey(tn.Type())] = tn.Type()
				g.typeByKey[typeKey(types.NewPointer(tn.Type()))] = types.NewPointer(tn.Type())
			}
		}
	}
	for _, t := range []types.Type{types.Typ[types.Int], types.Typ[types.Int64], types.Typ[types.Float64], types.Typ[types.String], types.Typ[types.Bool]} {
		g.typeByKey[typeKey(t)] = t
	}
	// contracts
	g.cs = &ContractSet{ByKey: map[string]*Contract{}, Specs: map[string]*SpecFun{}}
	for _, p := range pkgs {
		for i, f := range p.Syntax {
			if strings.HasSuffix(p.CompiledGoFiles[i], "_verif.go") {
				g.cs.readFile(g.fset, f, p.PkgPath, p.Name)
			}
		}
	}
	g.cs.resolveLikes()
	g.mapNonNil = map[string][]string{}
	g.boxNonNil = map[string][]string{}
	for _, ti := range g.cs.TypeInvs {
		t := g.resolveType(ti.Type, g.pkgByPath(ti.Pkg))
		if t == nil {
			g.bindErrors = append(g.bindErrors, "typeinv: unknown type "+ti.Type)
			continue
		}
		ps := ti.Props
		if ps == nil {
			ps = []string{}
		}
		if ti.Kind == "mapvalues" {
			g.mapNonNil[typeKey(t)] = ps
		} else {
			g.boxNonNil[typeKey(t)] = ps
		}
	}
	g.bindErrors = append(g.bindErrors, g.cs.Errors...)
	g.findTraced()
	return g, nil
}

// findTraced: callee names mentioned in ncalls/callarg/callseq anywhere in the contracts.
func (g *Gen) findTraced() {
	var walk func(e SExpr)
	walk = func(e SExpr) {
		switch x := e.(type) {
		case *SCall:
			if (x.Fun == "ncalls" || x.Fun == "callarg" || x.Fun == "callseq" || x.Fun == "callres" || x.Fun == "callobs" || x.Fun == "callfn" || x.Fun == "calledwith") && len(x.Args) > 0 {
				g.traced[calleeKeyOf(x.Args[0])] = true
				if x.Fun == "calledwith" {
					if g.cwUsed == nil {
						g.cwUsed = map[string]bool{}
					}
					g.cwUsed[calleeKeyOf(x.Args[0])] = true
				}
			}
			for _, a := range x.Args {
				walk(a)
			}
		case *SBin:
			walk(x.L)
			walk(x.R)
		case *SUn:
			walk(x.X)
		case *SQuant:
			walk(x.Body)
		case *SCond:
			walk(x.C)
			walk(x.A)
			walk(x.B)
		case *SSel:
			walk(x.X)
		case *SIndex:
			walk(x.X)
			walk(x.I)
		case *SAssert:
			walk(x.X)
		}
	}
	for _, ct := range g.cs.ByKey {
		for _, cl := range append(append(append([]*Clause{}, ct.Requires...), ct.Ensures...), ct.Invs...) {
			if cl.Expr != nil {
				walk(cl.Expr)
			}
		}
		for _, l := range ct.Loops {
			for _, cl := range l.Invariants {
				if cl.Expr != nil {
					walk(cl.Expr)
				}
			}
		}
	}
	for _, sf := range g.cs.Specs {
		if sf.Body != nil {
			walk(sf.Body)
		}
	}
	// argument types of traced callees: look the names up among module functions
	for fn := range ssautil.AllFunctions(g.prog) {
		if fn.Pkg == nil || !g.inModule(fn.Pkg.Pkg.Path()) {
			continue
		}
		name := methodKey(fn)
		if !g.traced[name] {
			continue
		}
		var ts []types.Type
		if r := fn.Signature.Recv(); r != nil {
			ts = append(ts, r.Type())
		}
		for i := 0; i < fn.Signature.Params().Len(); i++ {
			ts = append(ts, fn.Signature.Params().At(i).Type())
		}
		var rs []types.Type
		for i := 0; i < fn.Signature.Results().Len(); i++ {
			rs = append(rs, fn.Signature.Results().At(i).Type())
		}
		// per package as well: a function of the package under verification wins over a namesake
		if g.tracedByPkg == nil {
			g.tracedByPkg = map[string][2][]types.Type{}
		}
		g.tracedByPkg[fn.Pkg.Pkg.Path()+"\x00"+name] = [2][]types.Type{ts, rs}
		if _, have := g.tracedArgTypes[name]; have && fn.Pkg.Pkg.Path() != g.tracedPkg[name] && !strings.HasSuffix(fn.Pkg.Pkg.Path(), "/runtime") {
			continue // default: prefer the v1 runtime package when two packages share a function name
		}
		g.tracedPkg[name] = fn.Pkg.Pkg.Path()
		g.tracedArgTypes[name] = ts
		g.tracedResTypes[name] = rs
	}
	g.externTraceTypes()
	// interface methods of the module ("Input.Get"): argument 0 is the receiver (the interface value)
	for _, name := range sortedKeys(g.traced) {
		if _, ok := g.tracedArgTypes[name]; ok || strings.ContainsAny(name, "()") {
			continue
		}
		i := strings.Index(name, ".")
		if i <= 0 {
			continue
		}
		for _, path := range sortedKeys(g.allTypes) {
			p := g.allTypes[path]
			if !g.inModule(p.Path()) {
				continue
			}
			tn, ok := p.Scope().Lookup(name[:i]).(*types.TypeName)
			if !ok {
				continue
			}
			it, ok := tn.Type().Underlying().(*types.Interface)
			if !ok {
				continue
			}
			for k := 0; k < it.NumMethods(); k++ {
				if m := it.Method(k); m.Name() == name[i+1:] {
					sig := m.Type().(*types.Signature)
					ts := []types.Type{tn.Type()}
					var rs []types.Type
					for q := 0; q < sig.Params().Len(); q++ {
						ts = append(ts, sig.Params().At(q).Type())
					}
					for q := 0; q < sig.Results().Len(); q++ {
						rs = append(rs, sig.Results().At(q).Type())
					}
					g.tracedArgTypes[name], g.tracedResTypes[name] = ts, rs
				}
			}
		}
	}
	// named function types of the module ("FuncCheck"): argument 0 is the function value itself
	for _, name := range sortedKeys(g.traced) {
		if _, ok := g.tracedArgTypes[name]; ok || strings.ContainsAny(name, ".()") {
			continue
		}
		for _, path := range sortedKeys(g.allTypes) {
			p := g.allTypes[path]
			if !g.inModule(p.Path()) {
				continue
			}
			tn, ok := p.Scope().Lookup(name).(*types.TypeName)
			if !ok {
				continue
			}
			sig, ok := tn.Type().Underlying().(*types.Signature)
			if !ok {
				continue
			}
			if _, have := g.tracedArgTypes[name]; have && !strings.HasSuffix(p.Path(), "/runtime") {
				continue
			}
			var ts, rs []types.Type
			g.tracedFnType[name] = tn.Type()
			for k := 0; k < sig.Params().Len(); k++ {
				ts = append(ts, sig.Params().At(k).Type())
			}
			for k := 0; k < sig.Results().Len(); k++ {
				rs = append(rs, sig.Results().At(k).Type())
			}
			g.tracedArgTypes[name] = ts
			g.tracedResTypes[name] = rs
		}
	}
	for _, name := range sortedKeys(g.traced) {
		if _, ok := g.tracedArgTypes[name]; !ok {
			g.bindErrors = append(g.bindErrors, "call trace refers to unknown function "+name)
		}
	}
}

// externTraceTypes resolves the signature of a traced external function "pkg.Name".
func (g *Gen) externTraceTypes() {
	sigTypes := func(sig *types.Signature, recv types.Type) (ts, rs []types.Type) {
		if recv != nil {
			ts = append(ts, recv)
		}
		for k := 0; k < sig.Params().Len(); k++ {
			ts = append(ts, sig.Params().At(k).Type())
		}
		for k := 0; k < sig.Results().Len(); k++ {
			rs = append(rs, sig.Results().At(k).Type())
		}
		return
	}
	for _, name := range sortedKeys(g.traced) {
		i := strings.Index(name, ".")
		if i <= 0 || strings.HasPrefix(name, "(") {
			continue
		}
		if _, ok := g.tracedArgTypes[name]; ok {
			continue
		}
		rest := name[i+1:]
		for _, path := range sortedKeys(g.allTypes) {
			p := g.allTypes[path]
			if p.Name() != name[:i] {
				continue
			}
			if g.inModule(p.Path()) {
				g.bindErrors = append(g.bindErrors, "call trace: "+name+" is a function of this module; calls to it are recorded under its bare name ("+rest+")")
				g.tracedArgTypes[name] = nil
				break
			}
			if strings.HasPrefix(rest, "(") {
				// pkg.(*T).M or pkg.(T).M
				j := strings.Index(rest, ").")
				if j < 0 {
					continue
				}
				tn := strings.TrimPrefix(rest[1:j], "*")
				obj, ok := p.Scope().Lookup(tn).(*types.TypeName)
				if !ok {
					continue
				}
				var recv types.Type = obj.Type()
				if strings.HasPrefix(rest[1:j], "*") {
					recv = types.NewPointer(recv)
				}
				m, _, _ := types.LookupFieldOrMethod(recv, true, p, rest[j+2:])
				if f, ok := m.(*types.Func); ok {
					g.tracedArgTypes[name], g.tracedResTypes[name] = sigTypes(f.Type().(*types.Signature), recv)
					break
				}
				continue
			}
			if f, ok := p.Scope().Lookup(rest).(*types.Func); ok {
				g.tracedArgTypes[name], g.tracedResTypes[name] = sigTypes(f.Type().(*types.Signature), nil)
				break
			}
		}
	}
}

// bindContracts: every contract key must resolve to something in the tree.
func (g *Gen) bindContracts(idx *outIndex) {
	have := map[string]bool{}
	for fn := range ssautil.AllFunctions(g.prog) {
		if fn.Pkg == nil {
			continue
		}
		have["func "+fn.Pkg.Pkg.Path()+" "+methodKey(fn)] = true
		have["extern "+fn.Pkg.Pkg.Path()+"."+methodKey(fn)] = true
	}
	for _, k := range sortedKeys(g.cs.ByKey) {
		ct := g.cs.ByKey[k]
		switch ct.Kind {
		case "func":
			if !have[k] {
				idx.Unbound = append(idx.Unbound, k)
			} else {
				// loop ordinals must exist
				for fn := range ssautil.AllFunctions(g.prog) {
					if fn.Pkg != nil && "func "+fn.Pkg.Pkg.Path()+" "+methodKey(fn) == k {
						n := len(g.loopStmts(fn))
						for ord := range ct.Loops {
							if ord < 1 || ord > n {
								idx.Unbound = append(idx.Unbound, fmt.Sprintf("%s loop %d", k, ord))
							}
						}
					}
				}
			}
		case "struct", "functype":
			p := g.pkgByPath(ct.Pkg)
			if strings.HasPrefix(ct.Key, "func(") {
				continue
			}
			if p == nil || p.Scope().Lookup(ct.Key) == nil {
				idx.Unbound = append(idx.Unbound, k)
			}
		case "iface":
			parts := strings.SplitN(ct.Key, ".", 2)
			p := g.pkgByPath(ct.Pkg)
			ok := false
			if p != nil && len(parts) == 2 {
				if tn, _ := p.Scope().Lookup(parts[0]).(*types.TypeName); tn != nil {
					if it, isI := tn.Type().Underlying().(*types.Interface); isI {
						for i := 0; i < it.NumMethods(); i++ {
							if it.Method(i).Name() == parts[1] {
								ok = true
							}
						}
					}
				}
			}
			if !ok {
				idx.Unbound = append(idx.Unbound, k)
			}
		}
	}
}

// sweepMatch: names are globs (path.Match syntax); a leading '-' excludes.
func sweepMatch(sw *Sweep, name string) bool {
	hit := false
	for _, n := range sw.Names {
		neg := strings.HasPrefix(n, "-")
		pat := strings.TrimPrefix(n, "-")
		ok, _ := filepath.Match(pat, name)
		if pat == "*" {
			ok = true
		}
		if ok {
			hit = !neg
		}
	}
	return hit
}

// observeOf finds the `observe` declaration `obs` in the contract of the traced callee `name`
// (bare function/method key); the v1 runtime package is preferred when names collide.
func (g *Gen) observeOf(name, obs string) (*Observe, *types.Package) {
	var best *Observe
	var bestPkg *types.Package
	for _, k := range sortedKeys(g.cs.ByKey) {
		ct := g.cs.ByKey[k]
		f := strings.Fields(k)
		if len(f) < 2 || len(ct.Observes) == 0 {
			continue
		}
		switch f[0] {
		case "func":
			if len(f) < 3 || strings.Join(f[2:], " ") != name {
				continue
			}
		case "functype":
			if len(f) < 3 || strings.Join(f[2:], " ") != name {
				continue
			}
		case "extern":
			// key: extern <pkgpath>.<Name> ; calls are recorded under <pkgname>.<Name>
			full := strings.Join(f[1:], " ")
			match := false
			for _, path := range sortedKeys(g.allTypes) {
				if strings.HasPrefix(full, path+".") && g.allTypes[path].Name()+"."+full[len(path)+1:] == name {
					match = true
				}
			}
			if !match {
				continue
			}
		default:
			continue
		}
		for _, ob := range ct.Observes {
			if ob.Name == obs && (best == nil || strings.HasSuffix(ct.Pkg, "/runtime")) {
				best, bestPkg = ob, g.pkgByPath(ob.Pkg)
			}
		}
	}
	return best, bestPkg
}

// mentionsTrace: does the specification expression speak about the call trace of the function
// body it is attached to (ncalls/callarg/callres/callseq/callobs, directly or through spec
// functions)?  Such clauses are facts about the callee's own execution: they are proved
// against its body and are never assumed at a call site (the caller's trace is a different one).
func (g *Gen) mentionsTrace(e SExpr) bool {
	if g.traceSpecMemo == nil {
		g.traceSpecMemo = map[*SpecFun]int{}
	}
	var walk func(e SExpr) bool
	walk = func(e SExpr) bool {
		switch x := e.(type) {
		case *SCall:
			switch x.Fun {
			case "ncalls", "callarg", "callres", "callseq", "callobs", "callfn", "calledwith":
				return true
			}
			bare := x.Fun
			if i := strings.LastIndex(bare, "."); i >= 0 {
				bare = bare[i+1:]
			}
			for _, k := range sortedKeys(g.cs.Specs) {
				if !strings.HasSuffix(k, "."+bare) {
					continue
				}
				sf := g.cs.Specs[k]
				switch g.traceSpecMemo[sf] {
				case 1:
					return true
				case 2, 3:
					continue
				}
				g.traceSpecMemo[sf] = 3 // in progress
				if sf.Body != nil && walk(sf.Body) {
					g.traceSpecMemo[sf] = 1
					return true
				}
				g.traceSpecMemo[sf] = 2
			}
			for _, a := range x.Args {
				if walk(a) {
					return true
				}
			}
		case *SBin:
			return walk(x.L) || walk(x.R)
		case *SUn:
			return walk(x.X)
		case *SQuant:
			return walk(x.Body)
		case *SCond:
			return walk(x.C) || walk(x.A) || walk(x.B)
		case *SSel:
			return walk(x.X)
		case *SIndex:
			return walk(x.X) || walk(x.I)
		case *SSlice:
			return walk(x.X) || (x.Lo != nil && walk(x.Lo)) || (x.Hi != nil && walk(x.Hi))
		case *SAssert:
			return walk(x.X)
		}
		return false
	}
	return walk(e)
}
