package main

// Symbolic state, values and locations.

import (
	"fmt"
	"go/types"
	"sort"
	"strings"

	"golang.org/x/tools/go/ssa"
)

// Val is a symbolic Go value: an SMT term of the sort of Typ, or (for pointers
// that denote a structured location) a Loc, or a tuple.
type Val struct {
	T   string
	Typ types.Type
	Loc *Loc
	Tup []Val
	Src string // for struct values read from a heap object: its reference (lets x.f read the field component directly)
}

const (
	lLocal  = iota // non-escaping local variable cell
	lField         // field of a heap object: component H_T.f at Ref
	lElem          // element Idx of backing array Ref: component E_T
	lGlobal        // package-level variable
	lBox           // heap cell of non-struct type: component B_T at Ref
)

type pathElem struct {
	field int    // field index, or -1 for array index
	idx   string // array index term
	cont  types.Type
}

type Loc struct {
	Kind   int
	Alloc  *ssa.Alloc
	Comp   string     // component name
	Ref    string     // object / base reference
	Idx    string     // lElem: absolute index
	Root   types.Type // type stored in the cell (before Path)
	Path   []pathElem
	Typ    types.Type // type of the designated location (after Path)
	Struct types.Type // lField: the struct type the field belongs to
	Field  string
	Global *ssa.Global
}

// State: versions of every mutable thing on the current path.
type State struct {
	cells  map[*ssa.Alloc]string // local variable cells
	heap   map[string]string     // component -> version term
	ghost  map[string]string     // ghost cells
	epoch  int                   // heap epoch: a component not in heap is <name>@<epoch>
	defer_ map[*ssa.Defer]string // Bool: registered?
	dargs  map[*ssa.Defer][]Val  // argument values captured by the defer
}

func newState() *State {
	return &State{cells: map[*ssa.Alloc]string{}, heap: map[string]string{}, ghost: map[string]string{},
		defer_: map[*ssa.Defer]string{}, dargs: map[*ssa.Defer][]Val{}}
}

func (s *State) clone() *State {
	n := newState()
	for k, v := range s.cells {
		n.cells[k] = v
	}
	for k, v := range s.heap {
		n.heap[k] = v
	}
	for k, v := range s.ghost {
		n.ghost[k] = v
	}
	for k, v := range s.defer_ {
		n.defer_[k] = v
	}
	for k, v := range s.dargs {
		n.dargs[k] = v
	}
	n.epoch = s.epoch
	return n
}

// ---- components ---------------------------------------------------------------

type Comp struct {
	Name string
	Sort string
	Kind string // field elem box global mapdom mapval
	Typ  types.Type
}

func (fg *FuncGen) comp(name, sort, kind string) *Comp {
	if c, ok := fg.comps[name]; ok {
		return c
	}
	c := &Comp{Name: name, Sort: sort, Kind: kind}
	fg.comps[name] = c
	return c
}

func structTypeName(t types.Type) string {
	if p, ok := t.Underlying().(*types.Pointer); ok && !isNamed(t) {
		t = p.Elem()
	}
	return shortType(t)
}

func isNamed(t types.Type) bool { _, ok := t.(*types.Named); return ok }

func (fg *FuncGen) fieldComp(st types.Type, i int) *Comp {
	u := st.Underlying().(*types.Struct)
	name := fmt.Sprintf("H_%s.%s", shortType(st), fieldSelName(u, i))
	return fg.comp(name, fmt.Sprintf("(Array Int %s)", fg.enc.sortOf(u.Field(i).Type())), "field")
}

func (fg *FuncGen) elemComp(elem types.Type) *Comp {
	name := "E_" + shortType(elem)
	return fg.comp(name, fmt.Sprintf("(Array Int (Array %s %s))", fg.enc.INT(), fg.enc.sortOf(elem)), "elem")
}

func (fg *FuncGen) boxComp(t types.Type) *Comp {
	name := "B_" + shortType(t)
	return fg.comp(name, fmt.Sprintf("(Array Int %s)", fg.enc.sortOf(t)), "box")
}

func (fg *FuncGen) globalComp(g *ssa.Global) *Comp {
	name := "G_" + g.Pkg.Pkg.Name() + "." + g.Name()
	t := g.Type().(*types.Pointer).Elem()
	return fg.comp(name, fg.enc.sortOf(t), "global")
}

func (fg *FuncGen) mapComps(m *types.Map) (dom, val *Comp) {
	k := shortType(m.Key()) + "_" + shortType(m.Elem())
	dom = fg.comp("MD_"+k, fmt.Sprintf("(Array Int (Array %s Bool))", fg.enc.sortOf(m.Key())), "mapdom")
	val = fg.comp("MV_"+k, fmt.Sprintf("(Array Int (Array %s %s))", fg.enc.sortOf(m.Key()), fg.enc.sortOf(m.Elem())), "mapval")
	return
}

// get returns the current version of a component in state s.
func (fg *FuncGen) get(s *State, c *Comp) string {
	if fg.recording != nil {
		fg.recording[c.Name] = true
	}
	if v, ok := s.heap[c.Name]; ok {
		return v
	}
	name := fmt.Sprintf("%s@%d", c.Name, s.epoch)
	return fg.enc.declConst(name, c.Sort)
}

func (fg *FuncGen) set(s *State, c *Comp, term string) {
	if !fg.inCallHavoc {
		r := fg.storeRefHint
		if r == "" {
			r = "*"
		} else {
			r = fg.reach + "\x00" + r // the store happens only on paths where its block is reached
		}
		dup := false
		for _, x := range fg.ownMods[c.Name] {
			if x == r {
				dup = true
			}
		}
		if !dup {
			fg.ownMods[c.Name] = append(fg.ownMods[c.Name], r)
		}
	}
	// introduce a named version to keep terms small
	name := fg.enc.freshName(c.Name)
	v := fg.enc.declConst(name, c.Sort)
	fg.assume(fmt.Sprintf("(= %s %s)", v, term))
	s.heap[c.Name] = v
}

func (fg *FuncGen) havocComp(s *State, c *Comp) string {
	name := fg.enc.freshName(c.Name)
	v := fg.enc.declConst(name, c.Sort)
	s.heap[c.Name] = v
	return v
}

// havocAll forgets the whole heap (call to an unknown function).
func (fg *FuncGen) havocAll(s *State) {
	fg.epochs++
	s.epoch = fg.epochs
	s.heap = map[string]string{}
	fg.bumpAlloc(s)
}

// ghost cells -----------------------------------------------------------------

func (fg *FuncGen) ghostGet(s *State, name, sort, init string) string {
	if v, ok := s.ghost[name]; ok {
		return v
	}
	fg.ghostSort[name] = sort
	if init == "" {
		v := fg.enc.declConst(name+"@0", sort)
		return v
	}
	return init
}

func (fg *FuncGen) ghostSet(s *State, name, sort, term string) {
	fg.ghostSort[name] = sort
	n := fg.enc.freshName(name)
	v := fg.enc.declConst(n, sort)
	fg.assume(fmt.Sprintf("(= %s %s)", v, term))
	s.ghost[name] = v
}

// allocation counter: every reference that exists is < alloc; new objects get alloc, alloc+1...
func (fg *FuncGen) allocTerm(s *State) string { return fg.ghostGet(s, "$alloc", "Int", "") }

func (fg *FuncGen) newRef(s *State) string {
	a := fg.allocTerm(s)
	r := fg.enc.declConst(fg.enc.freshName("new"), "Int")
	fg.assume(fmt.Sprintf("(= %s %s)", r, a))
	fg.ghostSet(s, "$alloc", "Int", fmt.Sprintf("(+ %s 1)", a))
	return r
}

func (fg *FuncGen) bumpAlloc(s *State) {
	a := fg.allocTerm(s)
	n := fg.enc.declConst(fg.enc.freshName("$alloc"), "Int")
	fg.assume(fmt.Sprintf("(>= %s %s)", n, a))
	s.ghost["$alloc"] = n
	fg.ghostSort["$alloc"] = "Int"
}

// ---- merging ---------------------------------------------------------------------

type inEdge struct {
	cond string // Bool term: this edge is taken
	st   *State
}

func (fg *FuncGen) merge(edges []inEdge) *State {
	if len(edges) == 1 {
		return edges[0].st.clone()
	}
	out := newState()
	// epoch
	same := true
	for _, e := range edges[1:] {
		if e.st.epoch != edges[0].st.epoch {
			same = false
		}
	}
	if same {
		out.epoch = edges[0].st.epoch
	} else {
		fg.epochs++
		out.epoch = fg.epochs
	}
	mergeTerm := func(prefix, sort string, terms []string) string {
		all := true
		for _, t := range terms[1:] {
			if t != terms[0] {
				all = false
			}
		}
		if all {
			return terms[0]
		}
		v := fg.enc.declConst(fg.enc.freshName(prefix), sort)
		for i, t := range terms {
			fg.assume(implies(edges[i].cond, fmt.Sprintf("(= %s %s)", v, t)))
		}
		return v
	}
	// cells defined in all predecessors
	for a, t0 := range edges[0].st.cells {
		terms := []string{t0}
		ok := true
		for _, e := range edges[1:] {
			t, has := e.st.cells[a]
			if !has {
				ok = false
				break
			}
			terms = append(terms, t)
		}
		if ok {
			out.cells[a] = mergeTerm("c_"+a.Comment, fg.enc.sortOf(a.Type().(*types.Pointer).Elem()), terms)
		}
	}
	// heap components mentioned anywhere
	names := map[string]bool{}
	for _, e := range edges {
		for k := range e.st.heap {
			names[k] = true
		}
	}
	var ns []string
	for k := range names {
		ns = append(ns, k)
	}
	sort.Strings(ns)
	for _, k := range ns {
		c := fg.comps[k]
		var terms []string
		for _, e := range edges {
			terms = append(terms, fg.get(e.st, c))
		}
		out.heap[k] = mergeTerm(k, c.Sort, terms)
	}
	if !same {
		// components never mentioned: unknown in the merged epoch (sound over-approximation)
	}
	// ghosts
	gn := map[string]bool{}
	for _, e := range edges {
		for k := range e.st.ghost {
			gn[k] = true
		}
	}
	var gs []string
	for k := range gn {
		gs = append(gs, k)
	}
	sort.Strings(gs)
	for _, k := range gs {
		var terms []string
		for _, e := range edges {
			if t, ok := e.st.ghost[k]; ok {
				terms = append(terms, t)
			} else {
				terms = append(terms, fg.ghostInit(k))
			}
		}
		out.ghost[k] = mergeTerm(k, fg.ghostSort[k], terms)
	}
	// defers
	ds := map[*ssa.Defer]bool{}
	for _, e := range edges {
		for d := range e.st.defer_ {
			ds[d] = true
		}
	}
	for d := range ds {
		var terms []string
		for _, e := range edges {
			if t, ok := e.st.defer_[d]; ok {
				terms = append(terms, t)
				out.dargs[d] = e.st.dargs[d]
			} else {
				terms = append(terms, "false")
			}
		}
		out.defer_[d] = mergeTerm("deferred", "Bool", terms)
	}
	return out
}

func (fg *FuncGen) ghostInit(name string) string {
	if init, ok := fg.ghostInits[name]; ok {
		return init
	}
	return fg.enc.declConst(name+"@0", fg.ghostSort[name])
}

func describeLoc(l *Loc) string {
	var b strings.Builder
	switch l.Kind {
	case lLocal:
		b.WriteString("local " + l.Alloc.Comment)
	case lField, lBox:
		b.WriteString(l.Comp + "[" + l.Ref + "]")
	case lElem:
		b.WriteString(l.Comp + "[" + l.Ref + "][" + l.Idx + "]")
	case lGlobal:
		b.WriteString(l.Comp)
	}
	return b.String()
}
