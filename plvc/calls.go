package main

// Calls (contracts applied modularly), defers, returns, frames, object invariants.

import (
	"fmt"
	"go/token"
	"go/types"
	"sort"
	"strings"

	"golang.org/x/tools/go/ssa"
)

type callee struct {
	ct       *Contract
	name     string // display / trace key
	params   []string
	sig      *types.Signature
	fn       *ssa.Function
	kind     string // func extern iface functype dynamic
	inModule bool
	pkg      *types.Package
}

func methodKey(fn *ssa.Function) string {
	if recv := fn.Signature.Recv(); recv != nil {
		return "(" + types_TypeString(recv.Type()) + ")." + fn.Name()
	}
	return fn.Name()
}

func types_TypeString(t types.Type) string {
	return canonAny(types.TypeString(t, func(p *types.Package) string { return "" }))
}

func (g *Gen) contractFor(fn *ssa.Function) (*Contract, string) {
	if c, ok := g.ctCache[fn]; ok {
		return c.ct, c.key
	}
	ct, key := g.contractFor0(fn)
	ct = g.withDefaults(fn, ct)
	g.ctCache[fn] = ctEntry{ct, key}
	return ct, key
}

type ctEntry struct {
	ct  *Contract
	key string
}

// withDefaults expands `//@ default nonnil T` into requires clauses on every
// function of that package that has parameters (or a receiver) of type T.
func (g *Gen) withDefaults(fn *ssa.Function, ct *Contract) *Contract {
	if fn.Pkg == nil {
		return ct
	}
	defs := g.cs.Defaults[fn.Pkg.Pkg.Path()]
	if len(defs) == 0 {
		return ct
	}
	var extra []*Clause
	names := g.contractNames(fn, sigParamNames(fn.Signature, true))
	var ts []types.Type
	if r := fn.Signature.Recv(); r != nil {
		ts = append(ts, r.Type())
	}
	for i := 0; i < fn.Signature.Params().Len(); i++ {
		ts = append(ts, fn.Signature.Params().At(i).Type())
	}
	for i, t := range ts {
		txt := types.TypeString(t, func(p *types.Package) string {
			if p == fn.Pkg.Pkg {
				return ""
			}
			return p.Name()
		})
		for _, d := range defs {
			if d == txt || (strings.HasSuffix(d, ".*") && strings.HasPrefix(txt, strings.TrimSuffix(d, "*"))) {
				text := names[i] + " != nil"
				ex, _ := parseSpec(text)
				extra = append(extra, &Clause{Kind: "requires", Text: text, Expr: ex})
			}
		}
	}
	if len(extra) == 0 {
		return ct
	}
	var n Contract
	if ct != nil {
		n = *ct
	} else {
		n = Contract{Kind: "func", Key: methodKey(fn), Pkg: fn.Pkg.Pkg.Path(), PkgName: fn.Pkg.Pkg.Name(), Loops: map[int]*LoopSpec{}}
	}
	n.Requires = append(append([]*Clause{}, extra...), n.Requires...)
	return &n
}

func (g *Gen) contractFor0(fn *ssa.Function) (*Contract, string) {
	if fn.Pkg == nil {
		// wrapper / synthetic: try the declared method
		if fn.Object() != nil && fn.Object().Pkg() != nil {
			key := "extern " + fn.Object().Pkg().Path() + "." + methodKey(fn)
			return g.cs.ByKey[key], key
		}
		return nil, ""
	}
	path := fn.Pkg.Pkg.Path()
	if g.inModule(path) {
		key := "func " + path + " " + methodKey(fn)
		return g.cs.ByKey[key], key
	}
	key := "extern " + path + "." + methodKey(fn)
	return g.cs.ByKey[key], key
}

func sigParamNames(sig *types.Signature, withRecv bool) []string {
	var ns []string
	if withRecv && sig.Recv() != nil {
		n := sig.Recv().Name()
		if n == "" || n == "_" {
			n = "recv"
		}
		ns = append(ns, n)
	}
	for i := 0; i < sig.Params().Len(); i++ {
		n := sig.Params().At(i).Name()
		if n == "" || n == "_" {
			n = fmt.Sprintf("arg%d", i)
		}
		ns = append(ns, n)
	}
	return ns
}

func (fg *FuncGen) resolveCallee(c *ssa.CallCommon) *callee {
	g := fg.g
	if c.IsInvoke() {
		it := c.Value.Type()
		cl := &callee{kind: "iface", sig: c.Method.Type().(*types.Signature)}
		name := c.Method.Name()
		if n, ok := it.(*types.Named); ok && n.Obj().Pkg() != nil {
			cl.name = n.Obj().Name() + "." + name
			cl.pkg = n.Obj().Pkg()
			cl.ct = g.cs.ByKey["iface "+n.Obj().Pkg().Path()+" "+cl.name]
			cl.inModule = g.inModule(n.Obj().Pkg().Path())
		} else if n, ok := it.(*types.Named); ok && n.Obj().Pkg() == nil {
			cl.name = n.Obj().Name() + "." + name // error.Error
			cl.ct = g.cs.ByKey["extern "+cl.name]
			cl.pkg = fg.fn.Pkg.Pkg
		} else {
			cl.name = "interface." + name
			cl.pkg = fg.fn.Pkg.Pkg
		}
		cl.params = append([]string{"recv"}, sigParamNames(cl.sig, false)...)
		if cl.ct != nil && len(cl.ct.Params) > 0 {
			cl.params = cl.ct.Params
		}
		return cl
	}
	if fn := c.StaticCallee(); fn != nil {
		ct, _ := g.contractFor(fn)
		cl := &callee{kind: "func", fn: fn, ct: ct, sig: fn.Signature, name: methodKey(fn)}
		if fn.Pkg != nil {
			cl.pkg = fn.Pkg.Pkg
			cl.inModule = g.inModule(fn.Pkg.Pkg.Path())
			if !cl.inModule {
				cl.kind = "extern"
				cl.name = fn.Pkg.Pkg.Name() + "." + methodKey(fn)
			}
		} else {
			cl.kind = "extern"
			cl.pkg = fg.fn.Pkg.Pkg
			if fn.Object() != nil && fn.Object().Pkg() != nil {
				cl.name = fn.Object().Pkg().Name() + "." + methodKey(fn)
			}
		}
		cl.params = g.contractNames(fn, sigParamNames(fn.Signature, true))
		if ct != nil && len(ct.Params) > 0 {
			cl.params = ct.Params
		}
		return cl
	}
	// dynamic call of a function value
	cl := &callee{kind: "dynamic", sig: c.Value.Type().Underlying().(*types.Signature), pkg: fg.fn.Pkg.Pkg, name: "funcvalue"}
	if n, ok := c.Value.Type().(*types.Named); ok && n.Obj().Pkg() != nil {
		cl.kind = "functype"
		cl.name = n.Obj().Name()
		cl.pkg = n.Obj().Pkg()
		cl.ct = g.cs.ByKey["functype "+n.Obj().Pkg().Path()+" "+cl.name]
		cl.inModule = true
	}
	if cl.ct == nil && cl.kind == "dynamic" {
		// unnamed function types: contract keyed by the signature text, in the caller's package
		key := "functype " + fg.fn.Pkg.Pkg.Path() + " " + types.TypeString(cl.sig, func(p *types.Package) string { return p.Name() })
		if ct := g.cs.ByKey[key]; ct != nil {
			cl.ct = ct
			cl.kind = "functype"
			cl.inModule = true
			cl.name = ct.Key
		}
	}
	cl.params = sigParamNames(cl.sig, false)
	if cl.ct != nil && len(cl.ct.Params) > 0 {
		cl.params = cl.ct.Params
	}
	return cl
}

func (fg *FuncGen) execCall(res ssa.Value, c *ssa.CallCommon, in ssa.Instruction) {
	if b, ok := c.Value.(*ssa.Builtin); ok {
		fg.execBuiltin(res, b, c, in.Pos())
		return
	}
	if mc, ok := fg.closures[c.Value]; ok && !c.IsInvoke() {
		var cargs []Val
		for _, a := range c.Args {
			cargs = append(cargs, fg.val(a))
		}
		if rv, ok := fg.inlineClosure(mc, cargs, "true"); ok {
			if res != nil {
				fg.vals[res] = rv
			}
			return
		}
	}
	if sf := c.StaticCallee(); sf != nil && !c.IsInvoke() && fg.g.isNewFunction(sf) {
		if ct, _ := fg.g.contractFor0(sf); ct == nil {
			var cargs []Val
			for _, a := range c.Args {
				cargs = append(cargs, fg.val(a))
			}
			if rv, ok := fg.inlineBody(sf, nil, cargs, "true"); ok {
				if res != nil {
					fg.vals[res] = rv
				}
				return
			}
		}
	}
	var args []Val
	if c.IsInvoke() || c.StaticCallee() == nil {
		args = append(args, fg.val(c.Value))
	}
	for _, a := range c.Args {
		args = append(args, fg.val(a))
	}
	cl := fg.resolveCallee(c)
	if c.IsInvoke() {
		fg.oblige("safe:callnil", fg.g.srcText(in.Pos(), "call"), fmt.Sprintf("(not (= %s anil))", args[0].T), nil, "")
		args = args[0:]
	} else if c.StaticCallee() == nil {
		fg.oblige("safe:callnil", fg.g.srcText(in.Pos(), "call"), fmt.Sprintf("(not (= %s 0))", args[0].T), nil, "")
		fg.pendingFnVal = args[0].T
		args = args[1:]
	}
	var before *Obligation
	if fg.g.callVacuity && fg.inlineDepth == 0 {
		before = &Obligation{Name: fg.oblName("vacuity", "the call "+fg.g.srcText(in.Pos(), "call")+" is reached"), Kind: "vacuity", Func: funcDisplayName(fg.fn), Props: fg.props,
			Prefix: len(fg.asserts), Goal: fg.reach, ExpectSat: true, ThoroughOnly: true}
		fg.obls = append(fg.obls, before)
	}
	r := fg.applyCall(cl, args, in.Pos(), "true")
	if res != nil {
		fg.vals[res] = r
	}
	if fg.g.callVacuity && fg.inlineDepth == 0 {
		// vacuity guard (-callvac, thorough tier): the facts assumed about this call (the callee's contract, the
		// type facts of its results, the invariants re-assumed afterwards) must leave the call site's
		// continuation satisfiable whenever the call site itself was; `unsat` here means a contradictory
		// contract, under which everything after the call is proved vacuously
		o := &Obligation{Name: fg.oblName("vacuity", "the code after "+fg.g.srcText(in.Pos(), "call")+" is reachable"), Kind: "vacuity", Func: funcDisplayName(fg.fn), Props: fg.props,
			Prefix: len(fg.asserts), Goal: fg.reach, ExpectSat: true, ThoroughOnly: true, PairedWith: before.Name}
		fg.obls = append(fg.obls, o)
	}
}

// reifyArgs: pointer arguments that are structured locations cannot be passed on.
func (fg *FuncGen) argTerm(v Val) string {
	if v.Loc != nil {
		return fg.reify(v.Loc)
	}
	return v.T
}

// applyCall applies the callee's contract (or its inferred frame). guard is a Bool
// term under which the call happens (used for deferred calls).
func (fg *FuncGen) applyCall(cl *callee, args []Val, pos token.Pos, guard string) Val {
	e := fg.enc
	st := fg.cur
	txt := fg.g.srcText(pos, "call")
	if txt == "" {
		txt = cl.name
	}
	saveReach := fg.reach
	if guard != "true" {
		fg.reach = fg.namedBool("dg", and(fg.reach, guard))
	}
	defer func() { fg.reach = saveReach }()

	for i := range args {
		if args[i].Loc != nil {
			args[i] = Val{T: fg.reify(args[i].Loc), Typ: args[i].Typ}
		}
	}
	// ghost call trace
	thisFn := fg.pendingFnVal
	fg.recordCall(cl, args, guard)
	fg.pendingFnVal = ""
	fg.callEpoch++

	resT := cl.sig.Results()
	var resTyp types.Type = resT
	if resT.Len() == 1 {
		resTyp = resT.At(0).Type()
	}
	pre := st.clone()
	preAlloc := fg.allocTerm(st)

	bind := func(stt, old *State, results []Val) *SpecEnv {
		env := &SpecEnv{st: stt, old: old, vars: map[string]Val{}, pkg: cl.pkg, results: results, preAlloc: preAlloc, what: "contract of " + cl.name + " at call " + txt}
		if cl.ct != nil && cl.ct.Pkg != "" {
			if p := fg.g.pkgByPath(cl.ct.Pkg); p != nil {
				env.pkg = p
			}
		}
		for i, n := range cl.params {
			if i < len(args) {
				env.vars[n] = args[i]
			}
		}
		if thisFn != "" {
			// `thisfunc` in a function-type contract: the function value being called
			env.vars["thisfunc"] = Val{T: thisFn, Typ: cl.sig}
		}
		// variadic: extra args are already packed by go/ssa
		return env
	}

	if cl.ct != nil {
		env := bind(st, st, nil)
		for _, r := range cl.ct.Requires {
			fg.clausePkg(env, r)
			t := fg.trBool(r.Expr, env)
			props := r.Props
			fg.oblige("pre@call", txt+": "+r.Text, t, props, r.Text)
		}
	}
	if cl.ct != nil && fg.pendingTrace != nil {
		// observed state expressions of the callee's pre-state
		for _, ob := range cl.ct.Observes {
			env := bind(st, st, nil)
			if p := fg.g.pkgByPath(ob.Pkg); p != nil {
				env.pkg = p
			}
			t := fg.g.resolveType(ob.Type, env.pkg)
			if t == nil {
				fg.g.bindErrors = append(fg.g.bindErrors, fmt.Sprintf("%s: observe %s: unknown type %s", cl.ct.Key, ob.Name, ob.Type))
				continue
			}
			v := fg.tr(ob.Expr, env, t)
			cell := fmt.Sprintf("$callobs:%s:%s", cl.name, ob.Name)
			srt := fmt.Sprintf("(Array Int %s)", e.sortOf(t))
			arr := fg.ghostGet(st, cell, srt, "")
			fg.ghostSet(st, cell, srt, ite(guard, fmt.Sprintf("(store %s %s %s)", arr, fg.pendingTrace.cnt, v.T), arr))
		}
	}
	if cl.inModule && cl.kind != "extern" {
		fg.argInvariants(cl, args, pre, txt)
	}
	if cl.ct != nil {
		// the callee assigns every field of these arguments (proved against its body)
		for _, ow := range cl.ct.Overwrites {
			pn := strings.Fields(ow)[0]
			for i, n := range cl.params {
				if n == pn && i < len(args) {
					if p, ok := args[i].Typ.Underlying().(*types.Pointer); ok {
						for _, fr := range fg.fieldRefs(p.Elem(), args[i].T, "") {
							if overwriteExcluded(ow, fr.path) {
								continue
							}
							fg.ownMods[fr.comp.Name] = append(fg.ownMods[fr.comp.Name], fg.reach+"\x00"+fr.ref)
						}
					}
				}
			}
		}
	}
	// frame
	fg.havocForCall(cl, args, st, pre)
	fg.ownObjectsAcrossCall(pre, st, txt)
	fg.boundary = st.clone()
	// results
	var results []Val
	var rv Val
	if resT.Len() == 0 {
		rv = Val{Typ: resT}
	} else {
		rv = fg.freshVal("r_"+sanitize(cl.name), resTyp)
		if resT.Len() == 1 {
			results = []Val{rv}
		} else {
			results = rv.Tup
		}
	}
	if cl.ct != nil {
		env := bind(st, pre, results)
		for i := 0; i < resT.Len(); i++ {
			if n := resT.At(i).Name(); n != "" && n != "_" {
				env.vars[n] = results[i]
			}
		}
		for _, en := range cl.ct.Ensures {
			if fg.g.mentionsTrace(en.Expr) {
				continue // a fact about the callee's own call trace
			}
			fg.clausePkg(env, en)
			fg.assumeHere(fg.trBool(en.Expr, env))
		}
		for _, en := range cl.ct.Assumes {
			if fg.g.mentionsTrace(en.Expr) {
				continue
			}
			fg.clausePkg(env, en)
			fg.assumeHere(fg.trBool(en.Expr, env))
			fg.note("ASSUMED postcondition of %s (not checked against its body): %s", cl.name, en.Text)
		}
		if cl.kind == "extern" || cl.ct.Trusted {
			fg.note("assumed contract: %s %s", cl.ct.Kind, cl.ct.Key)
		}
		// a function that implements a function-type / interface-method contract also
		// guarantees that contract to its direct callers (it is proved against it)
		if cl.ct.Implements != "" && cl.fn != nil {
			if ict, names := fg.g.implementedBy(cl.fn, cl.ct); ict != nil {
				ienv := bind(st, pre, results)
				own := cl.params
				for i, n := range names {
					if i < len(own) {
						if v, ok := env.vars[own[i]]; ok {
							ienv.vars[n] = v
						}
					}
				}
				for _, en := range ict.Ensures {
					if fg.g.mentionsTrace(en.Expr) {
						continue
					}
					fg.clausePkg(ienv, en)
					fg.assumeHere(fg.trBool(en.Expr, ienv))
				}
			}
		}
	} else {
		switch {
		case cl.kind == "iface" && !cl.inModule:
			fg.note("external interface method %s: no contract; result unconstrained, memory reachable from pointer arguments havocked", cl.name)
		case cl.kind == "extern":
			fg.note("external %s: no contract; result unconstrained, memory reachable from pointer arguments havocked", cl.name)
		case cl.kind == "func":
			fg.note("callee %s: no contract; inferred frame, result unconstrained", cl.name)
		default:
			fg.note("dynamic call %s: no contract; whole heap havocked", cl.name)
		}
	}
	fg.recordResults(results)
	// object invariants of returned objects hold in the post state
	for _, r := range results {
		fg.assumeObjInv(r, st, true)
	}
	// ... and so do the invariants of the objects handed to a callee of this module (it
	// re-establishes the invariant of everything it writes: objinv obligations at its exits)
	if cl.inModule && cl.kind != "extern" {
		for i, a := range args {
			if a.T == "" || a.Typ == nil {
				continue
			}
			if cl.ct != nil && i < len(cl.params) && hasProp(cl.ct.NoInv, cl.params[i]) {
				continue
			}
			if ct, _ := fg.structInvFor(a.Typ); ct != nil {
				// only when the callee wrote something the invariant depends on (then the invariant
				// was obligated before the call - argInvariants / ownObjectsAcrossCall - and the callee
				// re-established it); an untouched object keeps whatever this function made of it
				if !fg.depsChanged(fg.invDeps(ct, a.Typ), pre, st) {
					continue
				}
				fg.assumeHere(implies(fmt.Sprintf("(not (= %s 0))", a.T), fg.invTerm(ct, a.Typ, a.T, st)))
			}
		}
	}
	_ = e
	return rv
}

func sanitize(s string) string {
	r := strings.NewReplacer("(", "", ")", "", "*", "", " ", "", "/", ".")
	return r.Replace(s)
}

// recordCall appends to the ghost call trace: per callee a counter, the reference
// arguments and the global sequence number of each call.
func (fg *FuncGen) recordCall(cl *callee, args []Val, guard string) {
	st := fg.cur
	name := cl.name
	if !fg.g.traced[name] {
		return
	}
	cnt := fg.ghostGet(st, "$calls:"+name, "Int", "0")
	seq := fg.ghostGet(st, "$seq", "Int", "0")
	fg.ghostInits["$calls:"+name] = "0"
	for j, a := range args {
		if a.T == "" || a.Typ == nil {
			continue
		}
		cell := fmt.Sprintf("$callarg:%s:%d", name, j)
		srt := fmt.Sprintf("(Array Int %s)", fg.enc.sortOf(a.Typ))
		arr := fg.ghostGet(st, cell, srt, "")
		fg.ghostSet(st, cell, srt, ite(guard, fmt.Sprintf("(store %s %s %s)", arr, cnt, a.T), arr))
		// the set of values passed as argument j so far, and of (argument j, argument j2) pairs
		cw := fmt.Sprintf("$cw:%s:%d", name, j)
		if csrt, ok := fg.ghostSort[cw]; ok {
			set := fg.ghostGet(st, cw, csrt, fg.ghostInits[cw])
			fg.ghostSet(st, cw, csrt, ite(guard, fmt.Sprintf("(store %s %s true)", set, a.T), set))
		}
		for j2, a2 := range args {
			if j2 <= j || a2.T == "" || a2.Typ == nil {
				continue
			}
			cw2 := fmt.Sprintf("$cw2:%s:%d:%d", name, j, j2)
			if csrt, ok := fg.ghostSort[cw2]; ok {
				set := fg.ghostGet(st, cw2, csrt, fg.ghostInits[cw2])
				fg.ghostSet(st, cw2, csrt, ite(guard, fmt.Sprintf("(store %s %s (store (select %s %s) %s true))", set, a.T, set, a.T, a2.T), set))
			}
		}
	}
	if fg.pendingFnVal != "" {
		// the function value a dynamic call went through
		farr := fg.ghostGet(st, "$callfn:"+name, "(Array Int Int)", "")
		fg.ghostSet(st, "$callfn:"+name, "(Array Int Int)", ite(guard, fmt.Sprintf("(store %s %s %s)", farr, cnt, fg.pendingFnVal), farr))
	}
	sc := "$callseq:" + name
	init := "((as const (Array Int Int)) 0)"
	fg.ghostInits[sc] = init
	sarr := fg.ghostGet(st, sc, "(Array Int Int)", init)
	fg.ghostSet(st, sc, "(Array Int Int)", ite(guard, fmt.Sprintf("(store %s %s %s)", sarr, cnt, seq), sarr))
	fg.pendingTrace = &traceRec{name: name, cnt: cnt, guard: guard}
	fg.ghostSet(st, "$calls:"+name, "Int", ite(guard, fmt.Sprintf("(+ %s 1)", cnt), cnt))
	fg.ghostSet(st, "$seq", "Int", ite(guard, fmt.Sprintf("(+ %s 1)", seq), seq))
}

type traceRec struct {
	name, cnt, guard string
}

// recordResults stores the results of a traced call in the ghost trace.
func (fg *FuncGen) recordResults(results []Val) {
	tr := fg.pendingTrace
	fg.pendingTrace = nil
	if tr == nil {
		return
	}
	st := fg.cur
	for i, r := range results {
		if r.T == "" || r.Typ == nil {
			continue
		}
		cell := fmt.Sprintf("$callres:%s:%d", tr.name, i)
		srt := fmt.Sprintf("(Array Int %s)", fg.enc.sortOf(r.Typ))
		arr := fg.ghostGet(st, cell, srt, "")
		fg.ghostSet(st, cell, srt, ite(tr.guard, fmt.Sprintf("(store %s %s %s)", arr, tr.cnt, r.T), arr))
	}
}

// ---- frames ------------------------------------------------------------------------

// frameItem: one entry of a modifies clause, evaluated in the pre-state.
type frameItem struct {
	comp *Comp
	ref  string // "" = whole component
}

// expandFrame replaces named frames by their items; an item of a named frame is written
// "<pkgpath>::<item>" so that it is resolved in the package that defines the frame.
func (g *Gen) expandFrame(items []string) []string {
	var out []string
	for _, it := range items {
		name := it
		if i := strings.LastIndex(it, "."); i > 0 {
			if _, ok := g.cs.Frames[it[i+1:]]; ok && !strings.ContainsAny(it, "()[] ") {
				name = it[i+1:] // pkg.frameName
			}
		}
		if sub, ok := g.cs.Frames[name]; ok {
			for _, s := range g.expandFrame(sub) {
				if !strings.Contains(s, "::") {
					s = g.cs.FramePkg[name] + "::" + s
				}
				out = append(out, s)
			}
		} else {
			out = append(out, it)
		}
	}
	return out
}

func (fg *FuncGen) frameItems(items []string, env *SpecEnv) (out []frameItem, all bool) {
	items = fg.g.expandFrame(items)
	basePkg := env.pkg
	for _, it := range items {
		env.pkg = basePkg
		if i := strings.Index(it, "::"); i > 0 {
			if p := fg.g.pkgByPath(it[:i]); p != nil {
				env.pkg = p
			}
			it = it[i+2:]
		}
		switch it {
		case "nothing":
			continue
		case "*":
			return nil, true
		}
		ex, err := parseSpec(it)
		if err != nil {
			fg.g.bindErrors = append(fg.g.bindErrors, err.Error())
			continue
		}
		func() {
			defer func() {
				if r := recover(); r != nil {
					if se, ok := r.(specError); ok {
						fg.g.bindErrors = append(fg.g.bindErrors, "modifies "+it+": "+se.msg)
						all = true
						return
					}
					panic(r)
				}
			}()
			switch x := ex.(type) {
			case *SSel:
				if id, ok := x.X.(*SIdent); ok {
					if _, bound := env.vars[id.Name]; !bound {
						if t := fg.g.resolveType(id.Name, env.pkg); t != nil && isStruct(t) {
							out = append(out, fg.structFieldItems(t, x.Name, "")...)
							return
						}
					}
				}
				if s2, ok := x.X.(*SSel); ok {
					// pkg.T.f
					if id, ok := s2.X.(*SIdent); ok {
						if _, bound := env.vars[id.Name]; !bound {
							if t := fg.g.resolveType(id.Name+"."+s2.Name, env.pkg); t != nil && isStruct(t) {
								out = append(out, fg.structFieldItems(t, x.Name, "")...)
								return
							}
						}
					}
				}
				xv := fg.tr(x.X, env, nil)
				p, ok := xv.Typ.Underlying().(*types.Pointer)
				if !ok {
					fg.specFail(env, "modifies %s: not a pointer", it)
				}
				out = append(out, fg.structFieldItems(p.Elem(), x.Name, xv.T)...)
			case *SCall:
				switch x.Fun {
				case "elems":
					v := fg.tr(x.Args[0], env, nil)
					sl, ok := v.Typ.Underlying().(*types.Slice)
					if !ok {
						fg.specFail(env, "elems of non-slice")
					}
					out = append(out, frameItem{comp: fg.elemComp(sl.Elem()), ref: "(sbase " + v.T + ")"})
				case "elemsof":
					t := fg.g.resolveType(x.Args[0].String(), env.pkg)
					if t == nil {
						fg.specFail(env, "unknown type in %s", it)
					}
					out = append(out, frameItem{comp: fg.elemComp(t)})
				case "mapof":
					v := fg.tr(x.Args[0], env, nil)
					m, ok := v.Typ.Underlying().(*types.Map)
					if !ok {
						fg.specFail(env, "mapof non-map")
					}
					d, vc := fg.mapComps(m)
					out = append(out, frameItem{comp: d, ref: v.T}, frameItem{comp: vc, ref: v.T})
				case "maptype":
					t := fg.g.resolveType(x.Args[0].String(), env.pkg)
					if t == nil {
						fg.specFail(env, "unknown map type in %s", it)
					}
					m, ok := t.Underlying().(*types.Map)
					if !ok {
						fg.specFail(env, "not a map type in %s", it)
					}
					d, vc := fg.mapComps(m)
					out = append(out, frameItem{comp: d}, frameItem{comp: vc})
				case "all":
					// all(x): every field of the object x points to
					v := fg.tr(x.Args[0], env, nil)
					p, ok := v.Typ.Underlying().(*types.Pointer)
					if !ok {
						fg.specFail(env, "all() of non-pointer")
					}
					out = append(out, fg.allFieldItems(p.Elem(), v.T)...)
				case "alltype":
					t := fg.g.resolveType(x.Args[0].String(), env.pkg)
					if t == nil {
						fg.specFail(env, "unknown type in %s", it)
					}
					out = append(out, fg.allFieldItems(t, "")...)
				case "global":
					name := x.Args[0].String()
					if gl := fg.g.findGlobal(env.pkg, name); gl != nil {
						out = append(out, frameItem{comp: fg.globalComp(gl)})
					} else {
						fg.specFail(env, "unknown global %s", name)
					}
				default:
					fg.specFail(env, "unknown frame item %s", it)
				}
			default:
				fg.specFail(env, "unknown frame item %s", it)
			}
		}()
	}
	return
}

func (fg *FuncGen) structFieldItems(t types.Type, field, ref string) []frameItem {
	u := t.Underlying().(*types.Struct)
	for i := 0; i < u.NumFields(); i++ {
		if u.Field(i).Name() == field {
			ft := u.Field(i).Type()
			if isStruct(ft) || isArray(ft) {
				r := ""
				if ref != "" {
					r = fg.embRef(t, i, ref)
				}
				return fg.allFieldItems(ft, r)
			}
			return append([]frameItem{{comp: fg.fieldComp(t, i), ref: ref}}, fg.ghostItems(t, field, ref)...)
		}
	}
	if ct := fg.structContract(t); ct != nil {
		for _, gf := range ct.Ghosts {
			if gf.Name == field {
				return []frameItem{{comp: fg.ghostComp(t, gf, ct), ref: ref}}
			}
		}
	}
	fg.g.bindErrors = append(fg.g.bindErrors, fmt.Sprintf("modifies: no field %s in %s", field, t))
	return nil
}

// ghostItems: the ghost fields of struct t that are recomputed when `field` is stored
// ("" = any field) travel with that field in every frame.
func (fg *FuncGen) ghostItems(t types.Type, field, ref string) []frameItem {
	ct := fg.structContract(t)
	if ct == nil {
		return nil
	}
	var out []frameItem
	for _, gf := range ct.Ghosts {
		hit := field == ""
		for _, on := range gf.On {
			if on == field {
				hit = true
			}
		}
		if hit {
			out = append(out, frameItem{comp: fg.ghostComp(t, gf, ct), ref: ref})
		}
	}
	return out
}

func (fg *FuncGen) allFieldItems(t types.Type, ref string) []frameItem {
	var out []frameItem
	switch u := t.Underlying().(type) {
	case *types.Struct:
		for i := 0; i < u.NumFields(); i++ {
			ft := u.Field(i).Type()
			if isStruct(ft) || isArray(ft) {
				r := ""
				if ref != "" {
					r = fg.embRef(t, i, ref)
				}
				out = append(out, fg.allFieldItems(ft, r)...)
			} else {
				out = append(out, frameItem{comp: fg.fieldComp(t, i), ref: ref})
			}
		}
		out = append(out, fg.ghostItems(t, "", ref)...)
	case *types.Array:
		out = append(out, frameItem{comp: fg.elemComp(u.Elem()), ref: ref})
	default:
		out = append(out, frameItem{comp: fg.boxComp(t), ref: ref})
	}
	return out
}

func (fg *FuncGen) havocItems(items []frameItem, st *State) {
	// group by component
	byComp := map[string][]string{}
	whole := map[string]bool{}
	var order []string
	for _, it := range items {
		if _, ok := byComp[it.comp.Name]; !ok && !whole[it.comp.Name] {
			order = append(order, it.comp.Name)
		}
		if it.ref == "" {
			whole[it.comp.Name] = true
		} else {
			byComp[it.comp.Name] = append(byComp[it.comp.Name], it.ref)
		}
	}
	seen := map[string]bool{}
	for _, cn := range order {
		if seen[cn] {
			continue
		}
		seen[cn] = true
		c := fg.comps[cn]
		if whole[cn] {
			fg.havocComp(st, c)
			continue
		}
		cur := fg.get(st, c)
		inner := c.Sort[len("(Array Int ") : len(c.Sort)-1]
		for _, r := range byComp[cn] {
			v := fg.enc.declConst(fg.enc.freshName("hv_"+cn), inner)
			cur = fmt.Sprintf("(store %s %s %s)", cur, r, v)
		}
		fg.set(st, c, cur)
	}
}

func (fg *FuncGen) havocForCall(cl *callee, args []Val, st, pre *State) {
	fg.inCallHavoc = true
	defer func() { fg.inCallHavoc = false }()
	if cl.ct != nil && cl.ct.Pure {
		// `pure` = writes nothing that existed; it may still allocate (its result can be `fresh`).  Without
		// the bump a pure callee that ensures fresh(result) made every path through the call infeasible:
		// result < $alloc (type fact) and result >= $alloc (fresh) on the same counter.
		fg.bumpAlloc(st)
		return
	}
	if cl.ct != nil && cl.ct.HasMod {
		env := &SpecEnv{st: pre, old: pre, vars: map[string]Val{}, pkg: cl.pkg, preAlloc: fg.allocTerm(pre), what: "modifies of " + cl.name}
		if p := fg.g.pkgByPath(cl.ct.Pkg); p != nil {
			env.pkg = p
		}
		for i, n := range cl.params {
			if i < len(args) {
				env.vars[n] = args[i]
			}
		}
		items, all := fg.frameItems(cl.ct.Modifies, env)
		if all {
			fg.havocAll(st)
			return
		}
		fg.havocItems(items, st)
		fg.bumpAlloc(st)
		return
	}
	switch {
	case cl.fn != nil && cl.inModule:
		ms := fg.g.inferredMods(cl.fn)
		if ms.All {
			fg.havocAll(st)
			return
		}
		fg.havocItems(fg.descItems(ms), st)
		fg.bumpAlloc(st)
	case cl.kind == "extern" || (cl.kind == "iface" && !cl.inModule):
		// memory directly reachable from pointer-like arguments
		var items []frameItem
		for _, a := range args {
			switch u := a.Typ.Underlying().(type) {
			case *types.Pointer:
				items = append(items, fg.allFieldItems(u.Elem(), a.T)...)
			case *types.Slice:
				items = append(items, frameItem{comp: fg.elemComp(u.Elem()), ref: "(sbase " + a.T + ")"})
			case *types.Map:
				d, vc := fg.mapComps(u)
				items = append(items, frameItem{comp: d, ref: a.T}, frameItem{comp: vc, ref: a.T})
			}
		}
		fg.havocItems(items, st)
		fg.bumpAlloc(st)
	default:
		fg.havocAll(st)
	}
}

func (fg *FuncGen) descItems(ms *ModSet) []frameItem {
	var out []frameItem
	for _, k := range sortedKeys(ms.Descs) {
		d := ms.Descs[k]
		switch d.Kind {
		case "field":
			out = append(out, frameItem{comp: fg.fieldComp(d.T, d.Field)})
			if u, ok := d.T.Underlying().(*types.Struct); ok && d.Field < u.NumFields() {
				out = append(out, fg.ghostItems(d.T, u.Field(d.Field).Name(), "")...)
			}
		case "elem":
			out = append(out, frameItem{comp: fg.elemComp(d.T)})
		case "box":
			out = append(out, frameItem{comp: fg.boxComp(d.T)})
		case "map":
			dd, vc := fg.mapComps(d.T.Underlying().(*types.Map))
			out = append(out, frameItem{comp: dd}, frameItem{comp: vc})
		case "global":
			out = append(out, frameItem{comp: fg.globalComp(d.G)})
		}
	}
	return out
}

func (fg *FuncGen) callMods(c *ssa.CallCommon, ms *modSet) {
	if _, ok := c.Value.(*ssa.Builtin); ok {
		name := c.Value.Name()
		switch name {
		case "append":
			if sl, ok := c.Args[0].Type().Underlying().(*types.Slice); ok {
				ms.comps[fg.elemComp(sl.Elem()).Name] = true
			}
		case "copy":
			if sl, ok := c.Args[0].Type().Underlying().(*types.Slice); ok {
				ms.comps[fg.elemComp(sl.Elem()).Name] = true
			}
		case "delete", "clear":
			if m, ok := c.Args[0].Type().Underlying().(*types.Map); ok {
				d, v := fg.mapComps(m)
				ms.comps[d.Name] = true
				ms.comps[v.Name] = true
			}
		}
		return
	}
	cl := fg.resolveCallee(c)
	if cl.ct != nil && cl.ct.Pure {
		return
	}
	if cl.ct != nil && cl.ct.HasMod {
		// component-level over-approximation of the declared frame
		env := &SpecEnv{st: fg.entry, old: fg.entry, vars: map[string]Val{}, pkg: cl.pkg, what: "modifies of " + cl.name}
		if p := fg.g.pkgByPath(cl.ct.Pkg); p != nil {
			env.pkg = p
		}
		for i, n := range cl.params {
			var t types.Type
			if cl.sig.Recv() != nil && cl.kind != "iface" {
				if i == 0 {
					t = cl.sig.Recv().Type()
				} else if i-1 < cl.sig.Params().Len() {
					t = cl.sig.Params().At(i - 1).Type()
				}
			} else if cl.kind == "iface" {
				if i == 0 {
					t = c.Value.Type()
				} else if i-1 < cl.sig.Params().Len() {
					t = cl.sig.Params().At(i - 1).Type()
				}
			} else if i < cl.sig.Params().Len() {
				t = cl.sig.Params().At(i).Type()
			}
			if t != nil {
				env.vars[n] = Val{T: fg.enc.declConst("dummy_"+shortType(t), fg.enc.sortOf(t)), Typ: t}
			}
		}
		items, all := fg.frameItems(cl.ct.Modifies, env)
		if all {
			ms.all = true
		}
		for _, it := range items {
			ms.comps[it.comp.Name] = true
		}
		return
	}
	switch {
	case cl.fn != nil && cl.inModule:
		m := fg.g.inferredMods(cl.fn)
		if m.All {
			ms.all = true
		}
		for _, it := range fg.descItems(m) {
			ms.comps[it.comp.Name] = true
		}
	case cl.kind == "extern" || (cl.kind == "iface" && !cl.inModule):
		for _, a := range c.Args {
			switch u := a.Type().Underlying().(type) {
			case *types.Pointer:
				for _, it := range fg.allFieldItems(u.Elem(), "") {
					ms.comps[it.comp.Name] = true
				}
			case *types.Slice:
				ms.comps[fg.elemComp(u.Elem()).Name] = true
			case *types.Map:
				d, v := fg.mapComps(u)
				ms.comps[d.Name] = true
				ms.comps[v.Name] = true
			}
		}
	default:
		ms.all = true
	}
}

// ---- builtins ------------------------------------------------------------------------

func (fg *FuncGen) execBuiltin(res ssa.Value, b *ssa.Builtin, c *ssa.CallCommon, pos token.Pos) {
	e := fg.enc
	st := fg.cur
	I := types.Typ[types.Int]
	switch b.Name() {
	case "len":
		v := fg.val(c.Args[0])
		switch u := v.Typ.Underlying().(type) {
		case *types.Slice:
			fg.vals[res] = Val{T: fg.named("len", e.INT(), "(sllen "+v.T+")"), Typ: I}
		case *types.Basic:
			fg.vals[res] = Val{T: fg.named("len", e.INT(), "(slen "+v.T+")"), Typ: I}
		case *types.Map:
			fg.vals[res] = Val{T: fg.named("len", e.INT(), ite(fmt.Sprintf("(= %s 0)", v.T), e.ilit(0), fg.mapLen(st, u, v.T))), Typ: I}
		case *types.Array:
			fg.vals[res] = Val{T: e.ilit(u.Len()), Typ: I}
		case *types.Pointer:
			fg.vals[res] = Val{T: e.ilit(u.Elem().Underlying().(*types.Array).Len()), Typ: I}
		default:
			fg.taint("len of %s", v.Typ)
			fg.vals[res] = fg.freshVal("len", I)
		}
	case "cap":
		v := fg.val(c.Args[0])
		if isSlice(v.Typ) {
			fg.vals[res] = Val{T: "(slcap " + v.T + ")", Typ: I}
		} else {
			fg.vals[res] = fg.freshVal("cap", I)
		}
	case "append":
		fg.execAppend(res, c, pos)
	case "delete":
		m := c.Args[0].Type().Underlying().(*types.Map)
		fg.mapDelete(st, m, fg.term(c.Args[0]), fg.term(c.Args[1]))
	case "copy":
		dst := fg.val(c.Args[0])
		if sl, ok := dst.Typ.Underlying().(*types.Slice); ok {
			fg.havocRow(st, fg.elemComp(sl.Elem()), "(sbase "+dst.T+")")
			fg.note("copy(): destination elements havocked")
		}
		if res != nil {
			fg.vals[res] = fg.freshVal("copied", I)
		}
	case "print", "println":
	case "ssa:wrapnilchk":
		fg.vals[res] = fg.val(c.Args[0])
	case "min", "max":
		a, bb := fg.term(c.Args[0]), fg.term(c.Args[1])
		t := c.Args[0].Type()
		if isInt(t) {
			_, s, _ := intInfo(t)
			op := "<="
			if b.Name() == "max" {
				op = ">="
			}
			fg.vals[res] = Val{T: ite(e.iop(op, a, bb, s), a, bb), Typ: res.Type()}
		} else {
			fg.vals[res] = fg.freshVal("minmax", res.Type())
		}
	default:
		if b.Name() == "ssa:deferstack" {
			fg.vals[res] = Val{T: "0", Typ: res.Type()}
			return
		}
		fg.taint("builtin %s", b.Name())
		if res != nil {
			fg.vals[res] = fg.freshVal("bi", res.Type())
		}
	}
}

func (fg *FuncGen) execAppend(res ssa.Value, c *ssa.CallCommon, pos token.Pos) {
	e := fg.enc
	st := fg.cur
	s := fg.val(c.Args[0])
	t := fg.val(c.Args[1])
	sl := s.Typ.Underlying().(*types.Slice)
	el := sl.Elem()
	comp := fg.elemComp(el)
	if isString(t.Typ) {
		// append([]byte, string...)
		fg.note("append([]byte, string...): result contents unconstrained")
		r := fg.freshVal("app", s.Typ)
		fg.assumeHere(fmt.Sprintf("(= (sllen %s) %s)", r.T, e.iop("+", "(sllen "+s.T+")", "(slen "+t.T+")", true)))
		fg.havocComp(st, comp)
		fg.bumpAlloc(st)
		fg.vals[res] = r
		return
	}
	I := e.INT()
	ls, lt := "(sllen "+s.T+")", "(sllen "+t.T+")"
	n := fg.named("app_n", I, e.iop("+", ls, lt, true))
	fits := fg.namedBool("app_fits", e.iop("<=", n, "(slcap "+s.T+")", true))
	h := fg.get(st, comp)
	fresh := fg.newRef(st)
	newcap := e.declConst(e.freshName("app_cap"), I)
	fg.assume(and(e.iop("<=", n, newcap, true), e.iop("<=", newcap, e.ilit(maxAlloc), true)))
	r := fg.named("app", "Slice", ite(fits,
		fmt.Sprintf("(mkslice (sbase %s) (soff %s) %s (slcap %s))", s.T, s.T, n, s.T),
		fmt.Sprintf("(mkslice %s %s %s %s)", fresh, e.ilit(0), n, newcap)))
	rowSort := fmt.Sprintf("(Array %s %s)", I, e.sortOf(el))
	oldRow := fmt.Sprintf("(select %s (sbase %s))", h, s.T)
	tRow := fmt.Sprintf("(select %s (sbase %s))", h, t.T)
	newRow := e.declConst(e.freshName("app_row"), rowSort)
	// number of appended elements when syntactically known
	k := -1
	if v, ok := fg.constLen[t.T]; ok {
		k = v
	}
	if k >= 0 && k <= 4 {
		// in place: exactly the k stores
		row := oldRow
		for j := 0; j < k; j++ {
			idx := e.at("(soff "+s.T+")", e.iop("+", ls, e.ilit(int64(j)), true), true)
			src := fmt.Sprintf("(select %s %s)", tRow, e.at("(soff "+t.T+")", e.ilit(int64(j)), true))
			row = fmt.Sprintf("(store %s %s %s)", row, idx, src)
		}
		fg.assume(implies(fits, fmt.Sprintf("(= %s %s)", newRow, row)))
		for j := 0; j < k; j++ {
			src := fmt.Sprintf("(select %s %s)", tRow, e.at("(soff "+t.T+")", e.ilit(int64(j)), true))
			fg.assume(implies(not(fits), fmt.Sprintf("(= (select %s %s) %s)", newRow, e.at("(soff "+r+")", e.iop("+", ls, e.ilit(int64(j)), true), true), src)))
		}
	} else {
		e.usesQuant = true
		// appended elements: newRow[at(off_r, len_s + j)] == tRow[at(off_t, j)]
		fg.assume(fmt.Sprintf("(forall ((j %s)) (! (=> (and %s %s) (= (select %s %s) (select %s %s))) :pattern (%s)))", I,
			e.iop("<=", e.ilit(0), "j", true), e.iop("<", "j", lt, true),
			newRow, e.at("(soff "+r+")", e.iop("+", ls, "j", true), false), tRow, e.at("(soff "+t.T+")", "j", false), e.at("(soff "+t.T+")", "j", false)))
		// in place: every other position of the row keeps its value
		fg.assume(implies(fits, fmt.Sprintf("(forall ((k %s)) (! (=> (not (and %s %s)) (= (select %s k) (select %s k))) :pattern ((select %s k))))", I,
			e.iop("<=", e.iop("+", "(soff "+s.T+")", ls, true), "k", true), e.iop("<", "k", e.iop("+", "(soff "+s.T+")", n, true), true), newRow, oldRow, newRow)))
	}
	// reallocation copies the old elements: newRow[at(0, j)] == oldRow[at(off_s, j)]
	e.usesQuant = true
	fg.assume(implies(not(fits), fmt.Sprintf("(forall ((j %s)) (! (=> (and %s %s) (= (select %s %s) (select %s %s))) :pattern (%s)))", I,
		e.iop("<=", e.ilit(0), "j", true), e.iop("<", "j", ls, true), newRow, e.at("(soff "+r+")", "j", false), oldRow, e.at("(soff "+s.T+")", "j", false), e.at("(soff "+r+")", "j", false))))
	// the definition of at() for bound indices (instantiated on at-terms only)
	if !e.bv {
		e.axiom(fmt.Sprintf("(forall ((a %s) (b %s)) (! (= (at a b) %s) :pattern ((at a b))))", I, I, e.iop("+", "a", "b", true)))
	}
	fg.set(st, comp, fmt.Sprintf("(store %s (sbase %s) %s)", h, r, newRow))
	fg.vals[res] = Val{T: r, Typ: s.Typ}
}

// ---- defers and returns ------------------------------------------------------------------

func (fg *FuncGen) execRunDefers() {
	if fg.inlineDepth > 0 {
		return // an inlined closure has no defers of its own (checked before inlining); the caller's are not its to run
	}
	st := fg.cur
	var ds []*ssa.Defer
	for d := range st.defer_ {
		ds = append(ds, d)
	}
	// reverse order of registration = reverse block/instruction order for loop-free defers
	sort.Slice(ds, func(i, j int) bool {
		if ds[i].Block().Index != ds[j].Block().Index {
			return fg.blockOrder[ds[i].Block()] > fg.blockOrder[ds[j].Block()]
		}
		return instrIndex(ds[i]) > instrIndex(ds[j])
	})
	for _, d := range ds {
		g := st.defer_[d]
		if g == "false" {
			continue
		}
		c := &d.Call
		if _, ok := c.Value.(*ssa.Builtin); ok {
			fg.taint("deferred builtin")
			continue
		}
		if mc, ok := fg.closures[c.Value]; ok && !c.IsInvoke() {
			dargs := st.dargs[d]
			if len(dargs) > 0 {
				dargs = dargs[1:]
			}
			if _, ok := fg.inlineClosure(mc, dargs, g); ok {
				st = fg.cur
				continue
			}
		}
		cl := fg.resolveCallee(c)
		args := st.dargs[d]
		if !(c.IsInvoke() || c.StaticCallee() == nil) {
			// args are exactly the call args
		} else if !c.IsInvoke() {
			args = args[1:]
		}
		fg.applyCall(cl, args, d.Pos(), g)
	}
}

func instrIndex(in ssa.Instruction) int {
	for i, x := range in.Block().Instrs {
		if x == in {
			return i
		}
	}
	return -1
}

type retEdge struct {
	cond    string
	st      *State
	results []Val
	pos     token.Pos
}

// execReturn records the exit; all exits are merged and the postconditions are
// checked once on the merged exit state (finishReturns).
func (fg *FuncGen) execReturn(x *ssa.Return) {
	var results []Val
	for _, r := range x.Results {
		v := fg.val(r)
		if v.Loc != nil {
			v = Val{T: fg.reify(v.Loc), Typ: v.Typ}
		}
		results = append(results, v)
	}
	fg.returns = append(fg.returns, retEdge{cond: fg.reach, st: fg.cur, results: results, pos: x.Pos()})
	if fg.ct != nil && fg.ct.ExitsSeparate && fg.inlineDepth == 0 {
		fg.checkExit(fg.cur, results) // (a return of a body executed inline is not an exit of this function)
	}
}

func (fg *FuncGen) finishReturns() {
	if len(fg.returns) == 0 {
		return
	}
	var edges []inEdge
	var conds []string
	for _, r := range fg.returns {
		edges = append(edges, inEdge{cond: r.cond, st: r.st})
		conds = append(conds, r.cond)
	}
	st := fg.merge(edges)
	fg.cur = st
	fg.reach = fg.namedBool("exit", or(conds...))
	var results []Val
	for i := range fg.returns[0].results {
		t := fg.returns[0].results[i].Typ
		same := true
		for _, r := range fg.returns[1:] {
			if r.results[i].T != fg.returns[0].results[i].T {
				same = false
			}
		}
		if same {
			results = append(results, fg.returns[0].results[i])
			continue
		}
		v := fg.freshValNoFacts(fmt.Sprintf("ret%d", i), t)
		for _, r := range fg.returns {
			fg.assume(implies(r.cond, fmt.Sprintf("(= %s %s)", v.T, r.results[i].T)))
		}
		results = append(results, v)
	}
	fg.lastPos = fg.fn.Pos()
	// vacuity: some return must be reachable under everything assumed so far
	fg.obls = append(fg.obls, &Obligation{Name: fg.oblName("vacuity", "a return is reachable"), Kind: "vacuity", Func: funcDisplayName(fg.fn), Props: fg.props,
		Prefix: len(fg.asserts), Goal: fg.reach, ExpectSat: true})
	if fg.ct != nil && fg.ct.ExitsSeparate {
		return
	}
	fg.checkExit(st, results)
}

// checkExit: postconditions, frame and object invariants at an exit state.
func (fg *FuncGen) checkExit(st *State, results []Val) {
	if fg.ct != nil {
		env := fg.ownEnv(st, fg.entry)
		env.results = results
		sig := fg.fn.Signature
		for i := 0; i < sig.Results().Len(); i++ {
			if n := sig.Results().At(i).Name(); n != "" && n != "_" && i < len(results) {
				env.vars[n] = results[i]
			}
		}
		for _, en := range fg.ct.Ensures {
			t := fg.trBool(en.Expr, env)
			fg.oblige("post", en.Text, t, en.Props, en.Text)
		}
		if ict, names := fg.implemented(); ict != nil {
			ienv := fg.implEnv(st, fg.entry, names)
			ienv.results = results
			if p := fg.g.pkgByPath(ict.Pkg); p != nil {
				ienv.pkg = p
			}
			for _, en := range ict.Ensures {
				t := fg.trBool(en.Expr, ienv)
				fg.oblige("post", "["+fg.ct.Implements+"] "+en.Text, t, append(append([]string{}, en.Props...), fg.props...), en.Text)
			}
		}
		fg.frameObligations(st)
	}
	fg.frameSweepObligations(st)
	fg.overwriteObligations(results)
	fg.objInvObligations(st)
}

type fieldRef struct {
	comp *Comp
	ref  string
	path string
}

// fieldRefs enumerates the scalar field locations of the struct of type t stored at ref
// (embedded structs are followed; arrays count as one location).
func (fg *FuncGen) fieldRefs(t types.Type, ref, path string) []fieldRef {
	u, ok := t.Underlying().(*types.Struct)
	if !ok {
		return nil
	}
	var out []fieldRef
	for i := 0; i < u.NumFields(); i++ {
		ft := u.Field(i).Type()
		name := path + u.Field(i).Name()
		switch {
		case isStruct(ft):
			out = append(out, fg.fieldRefs(ft, fg.embRef(t, i, ref), name+".")...)
		case isArray(ft):
			out = append(out, fieldRef{fg.elemComp(ft.Underlying().(*types.Array).Elem()), fg.embRef(t, i, ref), name})
		default:
			out = append(out, fieldRef{fg.fieldComp(t, i), ref, name})
		}
	}
	return out
}

// overwriteObligations: `overwrites p`: on every path to a return every field of *p has been
// assigned by this function (or by a callee that overwrites it) - so nothing of the object's
// earlier life survives.  The field list comes from the struct type, not from the contract.
func (fg *FuncGen) overwriteObligations(results []Val) {
	if fg.ct == nil || len(fg.ct.Overwrites) == 0 {
		return
	}
	for _, ow := range fg.ct.Overwrites {
		pn := strings.Fields(ow)[0]
		var pv Val
		found := false
		for _, p := range fg.fn.Params {
			if fg.ctName(p) == pn {
				pv, found = fg.vals[p], true
			}
		}
		if !found && pn == "result" && len(results) == 1 {
			pv, found = results[0], true
		}
		if !found {
			fg.g.bindErrors = append(fg.g.bindErrors, fg.ct.Key+": overwrites "+pn+": no such parameter")
			continue
		}
		pt, ok := pv.Typ.Underlying().(*types.Pointer)
		if !ok {
			fg.g.bindErrors = append(fg.g.bindErrors, fg.ct.Key+": overwrites "+pn+": not a pointer")
			continue
		}
		for _, fr := range fg.fieldRefs(pt.Elem(), pv.T, "") {
			if overwriteExcluded(ow, fr.path) {
				continue
			}
			var alts []string
			for _, m := range fg.ownMods[fr.comp.Name] {
				if m == "*" {
					continue
				}
				i := strings.Index(m, "\x00")
				if i < 0 {
					continue
				}
				if fr.ref == pv.T {
					alts = append(alts, and(m[:i], fmt.Sprintf("(= %s %s)", m[i+1:], fr.ref)))
				} else {
					// a store of the whole enclosing struct is recorded under the outer reference
					alts = append(alts, and(m[:i], fmt.Sprintf("(or (= %s %s) (= %s %s))", m[i+1:], fr.ref, m[i+1:], pv.T)))
				}
			}
			goal := "false"
			if len(alts) > 0 {
				goal = or(alts...)
			}
			fg.oblige("overwrites", pn+"."+fr.path+" is assigned on every path", goal, nil, "overwrites")
		}
	}
}

// frameSweepObligations: `framesweep[Cxx] F globs`: on objects that existed at entry the
// function changes only components listed (as whole components) in the named frame F.
func (fg *FuncGen) frameSweepObligations(st *State) {
	for _, sw := range fg.g.cs.FrameSweeps {
		if sw.Pkg != fg.fn.Pkg.Pkg.Path() || !sweepMatch(sw, methodKey(fg.fn)) {
			continue
		}
		env := &SpecEnv{st: fg.entry, old: fg.entry, vars: map[string]Val{}, pkg: fg.fn.Pkg.Pkg, preAlloc: fg.allocTerm(fg.entry), what: "framesweep " + sw.Frame}
		items, all := fg.frameItems([]string{sw.Frame}, env)
		if all {
			continue
		}
		whole := map[string]bool{}
		for _, it := range items {
			if it.ref == "" {
				whole[it.comp.Name] = true
			} else {
				fg.g.bindErrors = append(fg.g.bindErrors, "framesweep "+sw.Frame+": only component-level items are allowed")
			}
		}
		if st.epoch != 0 {
			fg.oblige("frame", "whole heap havocked by an uncontracted call (outside "+sw.Frame+")", "false", sw.Props, "framesweep")
			continue
		}
		a0 := fg.allocTerm(fg.entry)
		nTouched, nAllowed := 0, 0
		for _, cn := range sortedKeys(st.heap) {
			c := fg.comps[cn]
			if c == nil {
				continue
			}
			if fg.get(st, c) != fg.get(fg.entry, c) {
				nTouched++
				if whole[cn] {
					nAllowed++
				}
			}
		}
		// summary (decided by the generator: a component whose symbolic version at exit is the entry
		// version was not written); the components that need a solver follow one by one
		fg.obls = append(fg.obls, &Obligation{Name: fg.oblName("frame", "writes on pre-existing objects stay inside "+sw.Frame), Kind: "frame", Func: funcDisplayName(fg.fn), Props: sw.Props,
			Prefix: len(fg.asserts), Goal: "false", Cond: "true", Parts: []string{"true"}, Clause: fmt.Sprintf("framesweep: %d components written, %d of them listed in the frame, %d proved fresh-only below", nTouched, nAllowed, nTouched-nAllowed)})
		for _, cn := range sortedKeys(st.heap) {
			c := fg.comps[cn]
			if c == nil || whole[cn] {
				continue
			}
			cur, old := fg.get(st, c), fg.get(fg.entry, c)
			if cur == old {
				continue
			}
			var f string
			if c.Kind == "global" {
				f = fmt.Sprintf("(= %s %s)", cur, old)
			} else {
				fg.enc.usesQuant = true
				fg.needRootOf()
				f = fmt.Sprintf("(forall ((r Int)) (! (=> (< (rootOf r) %s) (= (select %s r) (select %s r))) :pattern ((select %s r))))", a0, cur, old, cur)
			}
			fg.oblige("frame", cn+" of pre-existing objects unchanged (not in "+sw.Frame+")", f, sw.Props, "framesweep")
		}
	}
}

// frameSpec: the declared frame of the function under verification (its own modifies
// clause and that of the functype/interface method it implements), evaluated at entry.
type frameSpec struct {
	all     bool
	whole   map[string]bool
	allowed map[string][]string
	tags    []string
}

func (fg *FuncGen) getFrameSpec() *frameSpec {
	if fg.fspec != nil {
		return fg.fspec
	}
	fs := &frameSpec{whole: map[string]bool{}, allowed: map[string][]string{}}
	fg.fspec = fs
	if fg.ct == nil {
		fs.all = true
		return fs
	}
	var sets [][]frameItem
	any := false
	if fg.ct.HasMod {
		env := fg.ownEnv(fg.entry, fg.entry)
		items, all := fg.frameItems(fg.ct.Modifies, env)
		if all {
			fs.all = true
		}
		sets = append(sets, items)
		any = true
	}
	if ict, names := fg.implemented(); ict != nil && ict.HasMod {
		penv := fg.implEnv(fg.entry, fg.entry, names)
		if p := fg.g.pkgByPath(ict.Pkg); p != nil {
			penv.pkg = p
		}
		items, all := fg.frameItems(ict.Modifies, penv)
		if all && !any {
			fs.all = true
		}
		if !all {
			if any {
				// both frames must be respected: intersect at component level (keep the stricter)
				sets = [][]frameItem{intersectItems(sets[0], items)}
			} else {
				sets = append(sets, items)
			}
		}
		any = true
	}
	if !any {
		fs.all = true
		return fs
	}
	for _, items := range sets {
		for _, it := range items {
			if it.ref == "" {
				fs.whole[it.comp.Name] = true
			} else {
				fs.allowed[it.comp.Name] = append(fs.allowed[it.comp.Name], it.ref)
			}
		}
	}
	return fs
}

func intersectItems(a, b []frameItem) []frameItem {
	inB := map[string]bool{}
	wholeB := map[string]bool{}
	for _, it := range b {
		if it.ref == "" {
			wholeB[it.comp.Name] = true
		}
		inB[it.comp.Name+"|"+it.ref] = true
	}
	var out []frameItem
	for _, it := range a {
		if wholeB[it.comp.Name] || inB[it.comp.Name+"|"+it.ref] {
			out = append(out, it)
		}
	}
	wholeA := map[string]bool{}
	for _, it := range a {
		if it.ref == "" {
			wholeA[it.comp.Name] = true
		}
	}
	for _, it := range b {
		if wholeA[it.comp.Name] && it.ref != "" {
			out = append(out, it)
		}
	}
	return out
}

// frameFormula: component cn is unchanged since entry on every pre-existing object outside
// the declared frame ("" when the whole component may be written or no frame is declared).
func (fg *FuncGen) frameFormula(st *State, cn string) string {
	fs := fg.getFrameSpec()
	if fs.all || fs.whole[cn] {
		return ""
	}
	c := fg.comps[cn]
	if c == nil {
		return ""
	}
	cur := fg.get(st, c)
	old := fg.get(fg.entry, c)
	if cur == old {
		return ""
	}
	if c.Kind == "global" {
		return fmt.Sprintf("(= %s %s)", cur, old)
	}
	var excl []string
	for _, r := range fs.allowed[cn] {
		excl = append(excl, fmt.Sprintf("(not (= r %s))", r))
	}
	fg.enc.usesQuant = true
	a0 := fg.allocTerm(fg.entry)
	fg.needRootOf()
	return fmt.Sprintf("(forall ((r Int)) (! (=> (and (< (rootOf r) %s) %s) (= (select %s r) (select %s r))) :pattern ((select %s r))))", a0, and(excl...), cur, old, cur)
}

// frameObligations: everything outside the declared frame is unchanged for objects
// that existed at entry.
func (fg *FuncGen) frameObligations(st *State) {
	fs := fg.getFrameSpec()
	if fs.all {
		return
	}
	// the declared frame is proved first and assumed afterwards, so a frame sweep that covers this
	// function rests on these obligations: they carry the sweep's properties too (a per-property run
	// would otherwise prove the sweep from an assumption it never checks)
	props := append([]string{}, fg.ct.Props...)
	for _, sw := range fg.g.cs.FrameSweeps {
		if sw.Pkg == fg.fn.Pkg.Pkg.Path() && sweepMatch(sw, methodKey(fg.fn)) {
			for _, p := range sw.Props {
				if !hasProp(props, p) {
					props = append(props, p)
				}
			}
		}
	}
	if st.epoch != 0 {
		fg.oblige("frame", "whole heap havocked by an uncontracted call", "false", props, "modifies")
		return
	}
	for _, cn := range sortedKeys(st.heap) {
		if f := fg.frameFormula(st, cn); f != "" {
			fg.oblige("frame", cn+" unchanged outside the declared frame", f, props, "modifies")
		}
	}
}

// ---- object invariants ---------------------------------------------------------------------

func (fg *FuncGen) structInvFor(t types.Type) (*Contract, types.Type) {
	p, ok := t.Underlying().(*types.Pointer)
	if !ok {
		return nil, nil
	}
	n, ok := p.Elem().(*types.Named)
	if !ok || n.Obj().Pkg() == nil {
		return nil, nil
	}
	ct := fg.g.cs.ByKey["struct "+n.Obj().Pkg().Path()+" "+n.Obj().Name()]
	if ct == nil || len(ct.Invs) == 0 {
		return nil, nil
	}
	return ct, n
}

func (fg *FuncGen) invTerm(ct *Contract, ptrT types.Type, ref string, st *State) string {
	env := &SpecEnv{st: st, old: st, vars: map[string]Val{"self": {T: ref, Typ: ptrT}}, pkg: fg.g.pkgByPath(ct.Pkg), preAlloc: fg.allocTerm(fg.entry), what: "invariant of " + ct.Key}
	var cs []string
	for _, inv := range ct.Invs {
		cs = append(cs, fg.trBool(inv.Expr, env))
	}
	return and(cs...)
}

// assumeObjInv: object invariants hold at every call boundary for every allocated object
// (visible-state semantics: each function re-establishes the invariant of every object it
// writes, checked by objInvObligations).  For a pointer obtained in this function:
//   - returned by a callee: the invariant holds in the current state;
//   - otherwise, if the object existed at entry: it holds in the current state as long as this
//     function has not itself written a field of that struct type (then only the entry-state
//     fact is used).
func (fg *FuncGen) assumeObjInv(v Val, st *State, post bool) {
	if v.T == "" || v.Typ == nil {
		return
	}
	ct, n := fg.structInvFor(v.Typ)
	if ct == nil {
		return
	}
	if _, ok := fg.known[v.T]; !ok && !strings.HasPrefix(v.T, "dummy_self_") {
		what := "obtained here"
		if len(fg.known) < len(fg.fn.Params) {
			what = "parameter"
		}
		fg.known[v.T] = touched{T: v.T, Typ: v.Typ, what: what, cond: fg.reach}
	}
	dirty := fg.dirty[typeKey(n)] || fg.depsChanged(fg.invDeps(ct, v.Typ), fg.lastBoundary(), fg.cur)
	key := fmt.Sprintf("%s|%v|%v|%d", v.T, post, dirty, fg.callEpoch)
	if fg.invAssumed[key] {
		return
	}
	fg.invAssumed[key] = true
	if post {
		fg.assumeHere(implies(fmt.Sprintf("(not (= %s 0))", v.T), fg.invTerm(ct, v.Typ, v.T, fg.cur)))
		return
	}
	// not one of the objects this function allocates itself (they may be under construction)
	own := fg.ownGuards(v)
	guard := and(append([]string{fmt.Sprintf("(not (= %s 0))", v.T)}, own...)...)
	if dirty {
		a0 := fg.allocTerm(fg.entry)
		guard = and(guard, fmt.Sprintf("(< %s %s)", v.T, a0))
		fg.assume(implies(guard, fg.invTerm(ct, v.Typ, v.T, fg.entry)))
	} else {
		fg.assumeHere(implies(guard, fg.invTerm(ct, v.Typ, v.T, fg.cur)))
	}
	fg.note("object invariant of %s assumed for pre-existing objects", ct.Key)
}

// assumeObjInvIn: the same for a reference read inside a specification, in the state the
// specification is evaluated in (always a call boundary or the entry state).
func (fg *FuncGen) assumeObjInvIn(v Val, st *State) {
	ct, n := fg.structInvFor(v.Typ)
	if ct == nil || fg.inInv {
		return
	}
	if fg.dirty[typeKey(n)] && st != fg.entry {
		return
	}
	key := fmt.Sprintf("spec|%s|%p", v.T, st)
	if fg.invAssumed[key] {
		return
	}
	fg.invAssumed[key] = true
	own := fg.ownGuards(v)
	guard := and(append([]string{fmt.Sprintf("(not (= %s 0))", v.T)}, own...)...)
	fg.inInv = true
	inv := fg.invTerm(ct, v.Typ, v.T, st)
	fg.inInv = false
	fg.assumeHere(implies(guard, inv))
}

func (fg *FuncGen) assumeStructInvsAtEntry() {
	for _, p := range fg.fn.Params {
		if fg.ct != nil && hasProp(fg.ct.NoInv, fg.ctName(p)) {
			continue
		}
		fg.assumeObjInv(fg.vals[p], fg.entry, false)
	}
}

// invDeps: the heap components the invariant of a struct type reads (beyond the object's
// own scalar fields): map contents, slice elements, fields of referenced objects.
func (fg *FuncGen) invDeps(ct *Contract, ptrT types.Type) []string {
	key := ct.Pkg + "." + ct.Key
	if d, ok := fg.depsCache[key]; ok {
		return d
	}
	fg.depsCache[key] = nil
	fg.recording = map[string]bool{}
	dummy := fg.enc.declConst("dummy_self_"+sanitize(ct.Key), "Int")
	fg.inInv = true
	fg.muted = true // facts about the dummy object are not kept
	fg.invTerm(ct, ptrT, dummy, fg.entry)
	fg.muted = false
	fg.inInv = false
	var deps []string
	for _, k := range sortedKeys(fg.recording) {
		deps = append(deps, k)
	}
	fg.recording = nil
	fg.depsCache[key] = deps
	return deps
}

func (fg *FuncGen) depsChanged(deps []string, a, b *State) bool {
	if a.epoch != b.epoch {
		return true
	}
	for _, d := range deps {
		c := fg.comps[d]
		if c != nil && fg.get(a, c) != fg.get(b, c) {
			return true
		}
	}
	return false
}

// released: the term is a parameter the contract `releases` (a finaliser clears the object and
// hands it to a pool: its invariant is not owed to anybody at return).
func (fg *FuncGen) released(term string) bool {
	if fg.ct == nil || len(fg.ct.Releases) == 0 {
		return false
	}
	for _, p := range fg.fn.Params {
		if hasProp(fg.ct.Releases, fg.ctName(p)) && fg.vals[p].T == term {
			fg.note("%s: the object invariant of parameter %s is not required at return (`releases`: the object goes back to its pool)", funcDisplayName(fg.fn), p.Name())
			return true
		}
	}
	return false
}

// objInvObligations: at return, the invariant holds for every object of an
// invariant-carrying type that this function allocated or wrote, and - when the function
// changed anything the invariant depends on - for every such object it knows about.
func (fg *FuncGen) objInvObligations(st *State) {
	done := map[string]bool{}
	for _, k := range sortedKeys(fg.invTouched) {
		tv := fg.invTouched[k]
		ct, _ := fg.structInvFor(tv.Typ)
		if ct == nil {
			continue
		}
		done[tv.T] = true
		if fg.released(tv.T) {
			continue
		}
		goal := implies(and(tv.cond, fmt.Sprintf("(not (= %s 0))", tv.T)), fg.invTerm(ct, tv.Typ, tv.T, st))
		fg.oblige("objinv", ct.Key+" "+tv.what, goal, ct.Props, "invariant")
	}
	for _, k := range sortedKeys(fg.known) {
		ko := fg.known[k]
		if done[ko.T] || fg.released(ko.T) {
			continue
		}
		ct, _ := fg.structInvFor(ko.Typ)
		if ct == nil {
			continue
		}
		own := false
		wild := false
		var hits []string
		for _, d := range fg.invDeps(ct, ko.Typ) {
			for _, r := range fg.ownMods[d] {
				own = true
				if r == "*" || !fg.isOwnField(ct, ko.Typ, d) {
					wild = true
				} else {
					parts := strings.SplitN(r, "\x00", 2)
					hits = append(hits, and(parts[0], fmt.Sprintf("(= %s %s)", ko.T, parts[1])))
				}
			}
		}
		if !own {
			continue // only callees wrote what the invariant depends on; they re-establish it themselves
		}
		touchedByUs := "true"
		if !wild {
			touchedByUs = or(hits...) // our own stores only hit these objects
		}
		goal := implies(and(ko.cond, fmt.Sprintf("(not (= %s 0))", ko.T), touchedByUs), fg.invTerm(ct, ko.Typ, ko.T, st))
		fg.oblige("objinv", ct.Key+" "+ko.what, goal, ct.Props, "invariant")
	}
}

// ---- ghost fields and immutable fields ------------------------------------------------------

func (fg *FuncGen) structContract(st types.Type) *Contract {
	n, ok := st.(*types.Named)
	if !ok || n.Obj().Pkg() == nil {
		return nil
	}
	return fg.g.cs.ByKey["struct "+n.Obj().Pkg().Path()+" "+n.Obj().Name()]
}

func (fg *FuncGen) ghostComp(st types.Type, gf *GhostField, ct *Contract) *Comp {
	var t types.Type = ghostInt
	if gf.Type != "mathint" {
		t = fg.g.resolveType(gf.Type, fg.g.pkgByPath(ct.Pkg))
	}
	name := fmt.Sprintf("H_%s.$%s", shortType(st), gf.Name)
	c := fg.comp(name, fmt.Sprintf("(Array Int %s)", fg.enc.sortOf(t)), "field")
	c.Typ = t
	return c
}

// fieldStored is called after a store to field `field` of the object ref of struct type st
// (field == "" means every field, e.g. allocation or whole-struct assignment).
func (fg *FuncGen) fieldStored(st types.Type, ref, field string, isAlloc bool, pos token.Pos) {
	if !isAlloc {
		fg.dirty[typeKey(st)] = true
	}
	ct := fg.structContract(st)
	if ct == nil {
		return
	}
	if !isAlloc {
		for _, im := range ct.Immutable {
			if field == "" || field == im {
				key := "imm|" + ref + "|" + im
				if fg.invAssumed[key] {
					continue
				}
				fg.invAssumed[key] = true
				fg.oblige("immutable", fmt.Sprintf("%s.%s is written only on fresh objects: %s", ct.Key, im, fg.g.srcText(pos, "any")),
					fmt.Sprintf("(>= %s %s)", ref, fg.allocTerm(fg.entry)), ct.Props, "immutable "+im)
			}
		}
	}
	for _, gf := range ct.Ghosts {
		hit := field == ""
		for _, on := range gf.On {
			if on == field {
				hit = true
			}
		}
		if !hit {
			continue
		}
		c := fg.ghostComp(st, gf, ct)
		env := &SpecEnv{st: fg.cur, old: fg.cur, vars: map[string]Val{"self": {T: ref, Typ: types.NewPointer(st)}}, pkg: fg.g.pkgByPath(ct.Pkg),
			preAlloc: fg.allocTerm(fg.entry), what: "ghost field " + ct.Key + "." + gf.Name}
		var v Val
		func() {
			defer func() {
				if r := recover(); r != nil {
					if se, ok := r.(specError); ok {
						fg.g.bindErrors = append(fg.g.bindErrors, se.msg)
						v = fg.freshVal("ghosterr", c.Typ)
						return
					}
					panic(r)
				}
			}()
			v = fg.tr(gf.Expr, env, c.Typ)
		}()
		fg.set(fg.cur, c, fmt.Sprintf("(store %s %s %s)", fg.get(fg.cur, c), ref, v.T))
	}
}

// implemented returns the functype / interface-method contract this function declares to
// satisfy (`//@ implements pkg.FuncType` or `pkg.Iface.Method`) and the positional renaming of
// its parameter names.
func (fg *FuncGen) implemented() (*Contract, []string) {
	if fg.ct == nil || fg.ct.Implements == "" {
		return nil, nil
	}
	parts := strings.Split(fg.ct.Implements, ".")
	p := fg.g.importedPkg(fg.fn.Pkg.Pkg, parts[0])
	if p == nil && parts[0] == fg.fn.Pkg.Pkg.Name() {
		p = fg.fn.Pkg.Pkg
	}
	if p == nil {
		fg.g.bindErrors = append(fg.g.bindErrors, "implements: unknown package in "+fg.ct.Implements)
		return nil, nil
	}
	var ct *Contract
	if len(parts) == 2 {
		ct = fg.g.cs.ByKey["functype "+p.Path()+" "+parts[1]]
	} else if len(parts) == 3 {
		ct = fg.g.cs.ByKey["iface "+p.Path()+" "+parts[1]+"."+parts[2]]
	}
	if ct == nil {
		fg.g.bindErrors = append(fg.g.bindErrors, "implements: no contract "+fg.ct.Implements)
		return nil, nil
	}
	_, names := fg.g.contractSig(ct)
	return ct, names
}

func (fg *FuncGen) implEnv(st, old *State, names []string) *SpecEnv {
	env := fg.ownEnv(st, old)
	// `thisfunc` in the function-type contract this function implements: this very function
	env.vars["thisfunc"] = Val{T: fg.funcID(fg.fn), Typ: fg.fn.Signature}
	own := fg.g.contractNames(fg.fn, sigParamNames(fg.fn.Signature, true))
	for i, n := range names {
		if i < len(own) {
			env.vars[n] = fg.paramVals[own[i]]
		}
	}
	return env
}

// ownObjectsAcrossCall: visible-state discipline for the objects this function allocated or
// wrote: if the callee may write fields their invariant depends on, the invariant must hold
// when the call is made (the callee relies on it) and holds again when it returns.
func (fg *FuncGen) ownObjectsAcrossCall(pre, st *State, callTxt string) {
	for _, k := range sortedKeys(fg.invTouched) {
		tv := fg.invTouched[k]
		ct, n := fg.structInvFor(tv.Typ)
		if ct == nil {
			continue
		}
		u, ok := n.Underlying().(*types.Struct)
		if !ok {
			continue
		}
		changed := false
		for i := 0; i < u.NumFields(); i++ {
			ft := u.Field(i).Type()
			if isStruct(ft) || isArray(ft) {
				continue
			}
			c := fg.fieldComp(n, i)
			if fg.get(pre, c) != fg.get(st, c) {
				changed = true
			}
		}
		if !changed && pre.epoch == st.epoch {
			continue
		}
		guard := and(tv.cond, fmt.Sprintf("(not (= %s 0))", tv.T))
		fg.oblige("objinv@call", ct.Key+" "+tv.what+", before "+callTxt, implies(guard, fg.invTerm(ct, tv.Typ, tv.T, pre)), ct.Props, "invariant")
		fg.assumeHere(implies(guard, fg.invTerm(ct, tv.Typ, tv.T, st)))
	}
}

// lastBoundary: the state at the last call boundary (or entry), where every object
// invariant is known to hold.
func (fg *FuncGen) lastBoundary() *State {
	if fg.boundary != nil {
		return fg.boundary
	}
	return fg.entry
}

// argInvariants: a callee relies on the invariant of the objects it is given; when this
// function has changed something such an invariant depends on, the invariant is re-proved
// for those arguments at the call.
func (fg *FuncGen) argInvariants(cl *callee, args []Val, pre *State, callTxt string) {
	if cl.ct != nil && len(cl.ct.NoInv) > 0 {
		// the callee explicitly does not rely on the invariant of some parameters (initialisers)
	}
	for i, a := range args {
		if a.T == "" || a.Typ == nil {
			continue
		}
		ct, _ := fg.structInvFor(a.Typ)
		if ct == nil {
			continue
		}
		if cl.ct != nil && i < len(cl.params) && hasProp(cl.ct.NoInv, cl.params[i]) {
			continue
		}
		if _, own := fg.invTouched[a.T]; own {
			continue // handled by ownObjectsAcrossCall
		}
		if !fg.depsChanged(fg.invDeps(ct, a.Typ), fg.lastBoundary(), pre) && !fg.dirty[typeKey(a.Typ.Underlying().(*types.Pointer).Elem())] {
			continue
		}
		fg.oblige("objinv@call", ct.Key+" argument of "+callTxt, implies(fmt.Sprintf("(not (= %s 0))", a.T), fg.invTerm(ct, a.Typ, a.T, pre)), ct.Props, "invariant")
	}
}

// clausePkg: names in a clause are resolved in the package of the file it was written in
// (blocks for the same dependency may be spread over several contract files).
func (fg *FuncGen) clausePkg(env *SpecEnv, c *Clause) {
	if c.Pkg != "" {
		if p := fg.g.pkgByPath(c.Pkg); p != nil {
			env.pkg = p
		}
	}
}

// implementedBy resolves the `implements` clause of a callee's contract.
func (g *Gen) implementedBy(fn *ssa.Function, ct *Contract) (*Contract, []string) {
	parts := strings.Split(ct.Implements, ".")
	if fn.Pkg == nil {
		return nil, nil
	}
	p := g.importedPkg(fn.Pkg.Pkg, parts[0])
	if p == nil && parts[0] == fn.Pkg.Pkg.Name() {
		p = fn.Pkg.Pkg
	}
	if p == nil {
		return nil, nil
	}
	var ict *Contract
	if len(parts) == 2 {
		ict = g.cs.ByKey["functype "+p.Path()+" "+parts[1]]
	} else if len(parts) == 3 {
		ict = g.cs.ByKey["iface "+p.Path()+" "+parts[1]+"."+parts[2]]
	}
	if ict == nil {
		return nil, nil
	}
	_, names := g.contractSig(ict)
	return ict, names
}

// isOwnField: the component is a scalar field of the invariant's own struct type (so a store
// to it at reference r affects only the object r).
func (fg *FuncGen) isOwnField(ct *Contract, ptrT types.Type, comp string) bool {
	p, ok := ptrT.Underlying().(*types.Pointer)
	if !ok {
		return false
	}
	u, ok := p.Elem().Underlying().(*types.Struct)
	if !ok {
		return false
	}
	for i := 0; i < u.NumFields(); i++ {
		ft := u.Field(i).Type()
		if isStruct(ft) || isArray(ft) {
			continue
		}
		if fg.fieldComp(p.Elem(), i).Name == comp {
			return true
		}
	}
	return false
}

// rootOf maps the reference of an embedded struct / array field to the heap object that
// contains it (identity on ordinary references); "existed at entry" in frame conditions is
// judged on the root, so the embedded parts of freshly allocated objects are exempt.
func (fg *FuncGen) needRootOf() {
	fg.enc.declFun("rootOf", []string{"Int"}, "Int")
	fg.enc.usesQuant = true
	fg.enc.axiom("(forall ((r Int)) (! (=> (>= r 0) (= (rootOf r) r)) :pattern ((rootOf r))))")
}

// overwriteExcluded: `overwrites p -a -b.c`: field paths a, a.*, b.c, b.c.* are not claimed.
func overwriteExcluded(clause, path string) bool {
	for _, f := range strings.Fields(clause)[1:] {
		x := strings.TrimPrefix(f, "-")
		if path == x || strings.HasPrefix(path, x+".") {
			return true
		}
	}
	return false
}
