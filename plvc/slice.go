package main

// Relevance slicing of a verification condition: only the assertions in the cone of
// influence of the goal are written to the query.  Dropping assumptions can only make a
// goal harder to prove, never unsound; a `sat` answer on a sliced query is re-checked
// (by the driver) against the full query / by replay.

import (
	"os"
	"strings"
)

var sliceWatch = os.Getenv("PLVC_SLICEWATCH")

type assertInfo struct {
	text    string
	syms    []string // declared symbols occurring anywhere
	body    []string // symbols of the body (after stripping a simple guard)
	defines string   // for (= NAME term): NAME
}

func symbolsOf(s string, declared map[string]bool) []string {
	var out []string
	seen := map[string]bool{}
	i := 0
	for i < len(s) {
		c := s[i]
		switch {
		case c == '|':
			j := strings.IndexByte(s[i+1:], '|')
			if j < 0 {
				i = len(s)
				break
			}
			name := s[i+1 : i+1+j]
			if declared[name] && !seen[name] {
				seen[name] = true
				out = append(out, name)
			}
			i += j + 2
		case c == '(' || c == ')' || c == ' ' || c == '\n' || c == '\t':
			i++
		default:
			j := i
			for j < len(s) && s[j] != '(' && s[j] != ')' && s[j] != ' ' && s[j] != '\n' && s[j] != '\t' {
				j++
			}
			name := s[i:j]
			if declared[name] && !seen[name] {
				seen[name] = true
				out = append(out, name)
			}
			i = j
		}
	}
	return out
}

func isGuardSym(n string) bool {
	return strings.HasPrefix(n, "reach_") || strings.HasPrefix(n, "edge!") || strings.HasPrefix(n, "dg!") || strings.HasPrefix(n, "exit!")
}

func analyseAssert(a string, declared map[string]bool) assertInfo {
	ai := assertInfo{text: a}
	ai.syms = symbolsOf(a, declared)
	// strip implication antecedents: an assertion A => B only matters when B does
	body := a
	for {
		op, args := sexprArgs(body)
		if op == "=>" && len(args) == 2 {
			body = args[1]
			continue
		}
		break
	}
	if body != a {
		ai.body = symbolsOf(body, declared)
	} else {
		ai.body = ai.syms
	}
	op, args := sexprArgs(body)
	if op == "=" && len(args) == 2 {
		n := strings.Trim(args[0], "|")
		if declared[n] && !strings.ContainsAny(args[0], " (") {
			ai.defines = n
		}
	}
	return ai
}

// sliceFor returns the indices (into infos[:prefix]) of the assertions relevant to goal.
func sliceFor(infos []assertInfo, prefix int, goalSyms []string) []bool {
	// hub symbols (present in a large share of the assertions: the allocation counter, the
	// receiver...) do not by themselves make an assertion relevant
	freq := map[string]int{}
	for i := 0; i < prefix; i++ {
		for _, s := range infos[i].syms {
			freq[s]++
		}
	}
	limit := prefix / 12
	if limit < 25 {
		limit = 25
	}
	_ = limit
	hub := func(s string) bool { return strings.HasPrefix(s, "$alloc") || strings.HasPrefix(s, "p_") }
	cone := map[string]bool{}
	for _, s := range goalSyms {
		cone[s] = true
	}
	inc := make([]bool, prefix)
	changed := true
	for changed {
		changed = false
		for i := 0; i < prefix; i++ {
			if inc[i] {
				continue
			}
			ai := &infos[i]
			rel := false
			if ai.defines != "" {
				rel = cone[ai.defines]
				if !rel {
					// a value derived only from cone symbols is an alias worth knowing about
					all := len(ai.body) > 1
					for _, s := range ai.body {
						if s != ai.defines && !cone[s] {
							all = false
							break
						}
					}
					rel = all
				}
			} else {
				allHub := true
				for _, s := range ai.body {
					if !isGuardSym(s) && !hub(s) {
						allHub = false
					}
				}
				for _, s := range ai.body {
					if cone[s] && !isGuardSym(s) && (allHub || !hub(s)) {
						rel = true
						break
					}
				}
				if !rel && len(ai.body) == 0 {
					// pure guard relations (reach definitions) come in when their symbols are needed
					for _, s := range ai.syms {
						if cone[s] {
							rel = true
							break
						}
					}
				}
			}
			// definitions of guard symbols: needed when the guard is in the cone
			if !rel && ai.defines == "" {
				all := true
				for _, s := range ai.syms {
					if !isGuardSym(s) {
						all = false
						break
					}
				}
				if all && len(ai.syms) > 0 {
					for _, s := range ai.syms {
						if cone[s] {
							rel = true
						}
					}
				}
			}
			if rel {
				inc[i] = true
				changed = true
				for _, s := range ai.syms {
					if !cone[s] && sliceWatch != "" && strings.Contains(s, sliceWatch) {
						t := ai.text
						if len(t) > 300 {
							t = t[:300]
						}
						println("SLICE: symbol", s, "introduced by assertion", i, t)
					}
					cone[s] = true
				}
			}
		}
	}
	return inc
}
