package main

// Reader for the comment-only contract files (contracts_verif.go, build tag
// verif).  Lines start with `//@`.  Blocks:
//
//   //@ func <name>            e.g. arithOpInt, (*PosCache).LnCol, (Stmts).String
//   //@ extern <pkgpath>.<name> | extern (<recv>).<name>    assumed contract of a dependency
//   //@ functype <TypeName>    contract every function value of this type obeys
//   //@ iface <Iface>.<Method> contract every implementation obeys
//   //@ struct <TypeName>      object invariant
//   //@ spec <name>(<params>) <type> = <expr>
//   //@ sweep[Cxx] <names|*>   safety sweep on functions without further contract
//
// Clauses inside a block (an optional [C01,C02] tag list attributes the clause):
//   props C01 C02 | intmode math|bv64 | pure | trusted | nooverflow
//   requires e | ensures e | modifies <frame items> | invariant e (struct blocks)
//   loop <k> ; then: invariant e | decreases e | modifies ...
//   assume e   (counted as assumption)   | lemma name: e
// A line `//@ | text` continues the previous clause.

import (
	"fmt"
	"go/ast"
	"go/token"
	"regexp"
	"strings"
)

type Clause struct {
	Pkg   string // package path of the file the clause was written in
	Own   bool   // not inherited through `like`
	Kind  string // requires ensures invariant decreases assume
	Text  string
	Expr  SExpr
	Props []string
	Pos   token.Position
}

type LoopSpec struct {
	Ordinal    int
	Invariants []*Clause
	Decreases  *Clause
	Modifies   []string
}

type Contract struct {
	Kind          string // func extern functype iface struct
	Key           string
	Pkg           string // package path of the contract file
	PkgName       string
	Props         []string
	IntMode       string
	Pure          bool
	Trusted       bool
	Requires      []*Clause
	Ensures       []*Clause
	Invs          []*Clause // struct invariants
	Assumes       []*Clause
	EntryAssumes  []*Clause // assumed at the entry of the function itself (listed as unchecked assumption)
	Modifies      []string  // frame items; nil = inferred
	HasMod        bool
	Loops         map[int]*LoopSpec
	Pos           token.Position
	File          *ast.File
	Params        []string // for externs/functypes without resolvable decl: optional names
	Observes      []*Observe
	NoSafety      bool          // `safety off`: no-panic obligations are not generated for this function (partial correctness)
	Overwrites    []string      // parameters (pointers to structs) every field of which is assigned on every path to a return
	Pairs         string        // the load-time checker whose acceptance establishes the `checked` clauses
	Checked       []*Clause     // facts established at load time by the paired checker (assumed at entry, proved as lemmas from the checker's postconditions)
	Releases      []string      // parameters whose object invariant is not required at return (finalisers)
	NoInv         []string      // parameters whose object invariant is neither assumed at entry nor required at calls (initialisers)
	ExitsSeparate bool          // check the postconditions at every return separately instead of on the merged exit
	Like          []string      // func blocks: copy requires/ensures/modifies of these contracts (same package)
	Implements    string        // func blocks: "<pkg>.<FuncType>" or "<pkg>.<Iface>.<Method>" whose contract this function must satisfy
	Ghosts        []*GhostField // struct blocks: ghost fields
	Immutable     []string      // struct blocks: fields written only on freshly allocated objects
}

// GhostField: `ghost depth int = <expr over self>  on Before` : a specification-only
// field whose value is recomputed whenever one of the `on` fields of the object is stored.
// Observe: a state expression of the callee's pre-state recorded in the caller's ghost call
// trace at every call (`//@ observe name type = expr`), read back with callobs(F, k, name).
type Observe struct {
	Name, Type, Text string
	Expr             SExpr
	Pkg              string
}

type GhostField struct {
	Name string
	Type string
	Text string
	Expr SExpr
	On   []string
}

type SpecFun struct {
	Name   string
	Params [][2]string // name, type text
	Ret    string
	Body   SExpr
	Text   string
	Pkg    string
	File   *ast.File
}

// TypeInv: `typeinv mapvalues <maptype> nonnil` (every value stored in a map of this type is
// non-nil; checked at every map update, assumed at lookups) or `typeinv box <type> nonnil`
// (an interface value never holds a nil value of this type; checked at every conversion to an
// interface, assumed at type assertions).
type TypeInv struct {
	Kind  string // mapvalues | box
	Type  string
	Pkg   string
	Props []string
}

type Sweep struct {
	Props []string
	Names []string
	Pkg   string
	Frame string // framesweep: name of the (component-level) frame every matching function is checked against
}

type ContractSet struct {
	Defaults     map[string][]string  // pkgpath -> type texts whose parameters are non-nil by default
	Frames       map[string][]string  // named frame sets: name -> items
	FramePkg     map[string]string    // named frame -> package path of the file that defines it
	TypeInvs     []TypeInv            // module-wide type-level invariants
	GlobalNonNil map[string]bool      // package-level variables that are never nil (checked at stores, assumed at loads)
	ByKey        map[string]*Contract // key: kind + " " + pkgpath + " " + name
	Specs        map[string]*SpecFun  // pkgpath + "." + name, and bare name
	Sweeps       []*Sweep
	FrameSweeps  []*Sweep
	Errors       []string
	Lemmas       []*Clause
}

var tagRe = regexp.MustCompile(`^([a-z]+)\[([A-Z0-9, ]+)\]`)

func splitProps(s string) []string {
	var out []string
	for _, p := range strings.FieldsFunc(s, func(r rune) bool { return r == ',' || r == ' ' }) {
		if p != "" {
			out = append(out, p)
		}
	}
	return out
}

func (cs *ContractSet) readFile(fset *token.FileSet, f *ast.File, pkgPath, pkgName string) {
	var cur *Contract
	var curLoop *LoopSpec
	var lastClause *Clause
	var lastSpec *SpecFun
	var lastSpecText *string
	lastFrame := ""
	errf := func(pos token.Position, format string, a ...any) {
		cs.Errors = append(cs.Errors, fmt.Sprintf("%s: %s", pos, fmt.Sprintf(format, a...)))
	}
	finish := func() {
		if lastClause != nil {
			e, err := parseSpec(lastClause.Text)
			if err != nil {
				errf(lastClause.Pos, "%v", err)
			}
			lastClause.Expr = e
			lastClause = nil
		}
		if lastSpec != nil {
			e, err := parseSpec(*lastSpecText)
			if err != nil {
				errf(token.Position{}, "%v", err)
			}
			lastSpec.Body = e
			lastSpec = nil
		}
	}
	for _, cg := range f.Comments {
		for _, c := range cg.List {
			if !strings.HasPrefix(c.Text, "//@") {
				continue
			}
			pos := fset.Position(c.Pos())
			line := strings.TrimSpace(c.Text[3:])
			if line == "" {
				continue
			}
			if strings.HasPrefix(line, "|") {
				cont := strings.TrimSpace(line[1:])
				if lastFrame != "" && lastClause == nil && lastSpec == nil {
					cs.Frames[lastFrame] = append(cs.Frames[lastFrame], splitTop(cont)...)
				} else if lastClause != nil {
					lastClause.Text += " " + cont
				} else if lastSpec != nil {
					*lastSpecText += " " + cont
				} else {
					errf(pos, "continuation without clause")
				}
				continue
			}
			finish()
			lastFrame2 := lastFrame
			lastFrame = ""
			_ = lastFrame2
			word := line
			rest := ""
			if i := strings.IndexAny(line, " \t"); i >= 0 {
				word, rest = line[:i], strings.TrimSpace(line[i+1:])
			}
			var props []string
			if m := tagRe.FindStringSubmatch(word); m != nil {
				word = m[1]
				props = splitProps(m[2])
			}
			switch word {
			case "func", "extern", "functype", "iface", "struct":
				cur = &Contract{Kind: word, Key: rest, Pkg: pkgPath, PkgName: pkgName, Loops: map[int]*LoopSpec{}, Pos: pos, File: f}
				curLoop = nil
				k := word + " " + pkgPath + " " + rest
				if word == "extern" {
					k = word + " " + rest
				}
				if prev, dup := cs.ByKey[k]; dup {
					// a later block for the same key continues the earlier one
					cur = prev
				} else {
					cs.ByKey[k] = cur
				}
			case "spec":
				m := regexp.MustCompile(`^(\w+)\(([^)]*)\)\s*([^=]+?)\s*=\s*(.*)$`).FindStringSubmatch(rest)
				if m == nil {
					errf(pos, "bad spec line")
					continue
				}
				sf := &SpecFun{Name: m[1], Ret: strings.TrimSpace(m[3]), Text: m[4], Pkg: pkgPath, File: f}
				for _, p := range strings.Split(m[2], ",") {
					p = strings.TrimSpace(p)
					if p == "" {
						continue
					}
					i := strings.IndexAny(p, " \t")
					if i < 0 {
						errf(pos, "spec param needs a type: %s", p)
						continue
					}
					sf.Params = append(sf.Params, [2]string{p[:i], strings.TrimSpace(p[i+1:])})
				}
				cs.Specs[pkgPath+"."+sf.Name] = sf
				lastSpec = sf
				lastSpecText = &sf.Text
			case "frame":
				if i := strings.Index(rest, "="); i > 0 {
					if cs.Frames == nil {
						cs.Frames = map[string][]string{}
					}
					name := strings.TrimSpace(rest[:i])
					if cs.FramePkg == nil {
						cs.FramePkg = map[string]string{}
					}
					cs.FramePkg[name] = pkgPath
					cs.Frames[name] = append(cs.Frames[name], splitTop(rest[i+1:])...)
					lastFrame = name
				} else {
					errf(pos, "bad frame directive")
				}
			case "global":
				f := strings.Fields(rest)
				if len(f) == 2 && f[1] == "nonnil" {
					if cs.GlobalNonNil == nil {
						cs.GlobalNonNil = map[string]bool{}
					}
					cs.GlobalNonNil[pkgPath+"."+f[0]] = true
				} else {
					errf(pos, "bad global directive")
				}
			case "typeinv":
				f := strings.Fields(rest)
				if len(f) == 3 && f[2] == "nonnil" && (f[0] == "mapvalues" || f[0] == "box") {
					cs.TypeInvs = append(cs.TypeInvs, TypeInv{Kind: f[0], Type: f[1], Pkg: pkgPath, Props: props})
				} else {
					errf(pos, "bad typeinv directive")
				}
			case "default":
				f := strings.Fields(rest)
				if len(f) == 2 && f[0] == "nonnil" {
					if cs.Defaults == nil {
						cs.Defaults = map[string][]string{}
					}
					cs.Defaults[pkgPath] = append(cs.Defaults[pkgPath], f[1])
				} else {
					errf(pos, "bad default directive")
				}
			case "sweep":
				cs.Sweeps = append(cs.Sweeps, &Sweep{Props: props, Names: strings.Fields(rest), Pkg: pkgPath})
			case "framesweep":
				// framesweep[Cxx] frameName glob... : every matching function of this package writes,
				// on objects that existed before the call, only what the named frame lists
				fl := strings.Fields(rest)
				if len(fl) < 2 {
					errf(pos, "framesweep needs a frame name and function patterns")
					continue
				}
				cs.FrameSweeps = append(cs.FrameSweeps, &Sweep{Props: props, Frame: fl[0], Names: fl[1:], Pkg: pkgPath})
			case "lemma":
				cl := &Clause{Kind: "lemma", Text: rest, Props: props, Pos: pos}
				cs.Lemmas = append(cs.Lemmas, cl)
				lastClause = cl
			default:
				if cur == nil {
					errf(pos, "clause %q outside a block", word)
					continue
				}
				switch word {
				case "props":
					cur.Props = append(cur.Props, splitProps(rest)...)
				case "intmode":
					cur.IntMode = rest
				case "pure":
					cur.Pure = true
				case "trusted":
					cur.Trusted = true
				case "params":
					cur.Params = strings.Fields(rest)
				case "safety":
					cur.NoSafety = rest == "off"
				case "overwrites":
					// overwrites p [-field ...]: one parameter per clause; excluded field paths follow with a leading '-'
					cur.Overwrites = append(cur.Overwrites, rest)
				case "noinv":
					cur.NoInv = append(cur.NoInv, strings.Fields(rest)...)
				case "releases":
					// releases p: the object leaves the regime of its invariant (it is cleared and handed to a pool)
					cur.Releases = append(cur.Releases, strings.Fields(rest)...)
				case "exits":
					cur.ExitsSeparate = rest == "separate"
				case "like":
					cur.Like = append(cur.Like, strings.Fields(rest)...)
				case "implements":
					cur.Implements = rest
				case "immutable":
					cur.Immutable = append(cur.Immutable, strings.Fields(rest)...)
				case "ghost":
					m := regexp.MustCompile(`^(\w+)\s+(\S+)\s*=\s*(.*?)\s+on\s+([\w ,]+)$`).FindStringSubmatch(rest)
					if m == nil {
						errf(pos, "bad ghost field (want: ghost name type = expr on field[,field])")
						continue
					}
					ex, err := parseSpec(m[3])
					if err != nil {
						errf(pos, "%v", err)
					}
					cur.Ghosts = append(cur.Ghosts, &GhostField{Name: m[1], Type: m[2], Text: m[3], Expr: ex, On: splitProps(m[4])})
				case "observe":
					m := regexp.MustCompile(`^(\w+)\s+(\S+)\s*=\s*(.*)$`).FindStringSubmatch(rest)
					if m == nil {
						errf(pos, "bad observe (want: observe name type = expr)")
						continue
					}
					ex, err := parseSpec(m[3])
					if err != nil {
						errf(pos, "%v", err)
					}
					cur.Observes = append(cur.Observes, &Observe{Name: m[1], Type: m[2], Text: m[3], Expr: ex, Pkg: pkgPath})
				case "loop":
					n := 0
					fmt.Sscanf(rest, "%d", &n)
					if prev, ok := cur.Loops[n]; ok {
						curLoop = prev
					} else {
						curLoop = &LoopSpec{Ordinal: n}
						cur.Loops[n] = curLoop
					}
				case "modifies":
					items := splitTop(rest)
					if curLoop != nil {
						curLoop.Modifies = append(curLoop.Modifies, items...)
					} else {
						cur.Modifies = append(cur.Modifies, items...)
						cur.HasMod = true
					}
				case "pairs":
					cur.Pairs = rest
				case "checked":
					cl := &Clause{Kind: "checked", Text: rest, Props: props, Pos: pos, Pkg: pkgPath}
					lastClause = cl
					cur.Checked = append(cur.Checked, cl)
				case "requires", "ensures", "invariant", "decreases", "assume", "entryassume", "ownrequires", "ownensures":
					own := strings.HasPrefix(word, "own")
					word = strings.TrimPrefix(word, "own")
					cl := &Clause{Kind: word, Text: rest, Props: props, Pos: pos, Own: own, Pkg: pkgPath}
					lastClause = cl
					switch {
					case word == "requires":
						cur.Requires = append(cur.Requires, cl)
					case word == "ensures":
						cur.Ensures = append(cur.Ensures, cl)
					case word == "assume":
						cur.Assumes = append(cur.Assumes, cl)
					case word == "entryassume":
						cur.EntryAssumes = append(cur.EntryAssumes, cl)
					case word == "invariant" && curLoop != nil:
						curLoop.Invariants = append(curLoop.Invariants, cl)
					case word == "invariant" && cur.Kind == "struct":
						cur.Invs = append(cur.Invs, cl)
					case word == "decreases" && curLoop != nil:
						curLoop.Decreases = cl
					default:
						errf(pos, "%s outside loop/struct block", word)
					}
				default:
					errf(pos, "unknown clause %q", word)
				}
			}
		}
	}
	finish()
}

// splitTop splits on commas at bracket depth 0.
func splitTop(s string) []string {
	var out []string
	d, st := 0, 0
	for i, c := range s {
		switch c {
		case '(', '[', '{':
			d++
		case ')', ']', '}':
			d--
		case ',':
			if d == 0 {
				out = append(out, strings.TrimSpace(s[st:i]))
				st = i + 1
			}
		}
	}
	if t := strings.TrimSpace(s[st:]); t != "" {
		out = append(out, t)
	}
	return out
}

func hasProp(ps []string, p string) bool {
	for _, x := range ps {
		if x == p {
			return true
		}
	}
	return false
}

// resolveLikes copies the clauses of `like` targets (same package) in front of a contract's own.
func (cs *ContractSet) resolveLikes() {
	done := map[*Contract]bool{}
	var rec func(ct *Contract, depth int)
	rec = func(ct *Contract, depth int) {
		if done[ct] || depth > 10 {
			return
		}
		done[ct] = true
		for i := len(ct.Like) - 1; i >= 0; i-- {
			t := cs.ByKey["func "+ct.Pkg+" "+ct.Like[i]]
			if t == nil {
				cs.Errors = append(cs.Errors, fmt.Sprintf("%s: like %s: no such contract", ct.Key, ct.Like[i]))
				continue
			}
			rec(t, depth+1)
			ct.Requires = append(notOwn(t.Requires), ct.Requires...)
			ct.Ensures = append(notOwn(t.Ensures), ct.Ensures...)
			if t.NoSafety {
				ct.NoSafety = true
			}
			if t.HasMod && !ct.HasMod {
				ct.Modifies = append([]string{}, t.Modifies...)
				ct.HasMod = true
			}
		}
	}
	for _, k := range sortedKeys(cs.ByKey) {
		rec(cs.ByKey[k], 0)
	}
}

func notOwn(cs []*Clause) []*Clause {
	var out []*Clause
	for _, c := range cs {
		if !c.Own {
			out = append(out, c)
		}
	}
	return out
}
