// goreplay.go: material for replaying a counterexample on the real code.
//
// For a package-level function whose parameters are all of a "simple" kind (integers, bool,
// string, float, or an empty interface holding one of those) the index carries, per function,
// how to call it from an in-package test, and, per obligation, the violated clause translated
// into a Go expression over the parameters and results (where the clause lies in the
// translatable fragment: no call traces, no heap predicates; quantifiers only over an integer
// range).  lib/replay.py fills in the model's values, runs the test through `go test -overlay`
// and confirms a violation only when the real function, run on those values, makes the clause
// false (or panics, for a safety obligation).  A clause that cannot be translated, or a test
// that does not compile, leaves the violation unconfirmed (`no-failing-input-found`); it never
// produces a confirmation.
package main

import (
	"fmt"
	"go/token"
	"go/types"
	"path/filepath"
	"regexp"
	"sort"
	"strings"

	"golang.org/x/tools/go/ssa"
)

type replayParam struct {
	Name   string `json:"name"`
	Kind   string `json:"kind"`   // int | bool | string | float | any
	GoType string `json:"gotype"` // as written inside the package ("" for any)
	Bits   int    `json:"bits,omitempty"`
	Uns    bool   `json:"unsigned,omitempty"`
}

type replayInfo struct {
	PkgDir  string        `json:"pkg_dir"`
	PkgName string        `json:"pkg_name"`
	Call    string        `json:"call"`
	Params  []replayParam `json:"params"`
	Results []string      `json:"results"`
	Imports [][2]string   `json:"imports"` // name, path: every import a generated test may mention
	Posts   []replayPost  `json:"posts"`   // every postcondition of the function that could be translated
}

type replayPost struct {
	Clause    string      `json:"clause"`
	Props     []string    `json:"props"`
	GoClause  string      `json:"go_clause"`
	GoHelpers string      `json:"go_helpers"`
	GoImports [][2]string `json:"go_imports"`
}

func simpleKind(t types.Type) string {
	switch u := t.Underlying().(type) {
	case *types.Basic:
		switch {
		case u.Info()&types.IsInteger != 0:
			return "int"
		case u.Info()&types.IsBoolean != 0:
			return "bool"
		case u.Info()&types.IsString != 0:
			return "string"
		case u.Kind() == types.Float64:
			return "float"
		}
	case *types.Interface:
		if u.NumMethods() == 0 {
			return "any"
		}
	}
	return ""
}

// replayInfoFor: nil when the function cannot be called from a generated test with model values.
func (g *Gen) replayInfoFor(fn *ssa.Function, repo string) *replayInfo {
	if fn.Pkg == nil || fn.Signature.Recv() != nil || fn.Parent() != nil || fn.Signature.Variadic() {
		return nil
	}
	if fn.Signature.TypeParams() != nil && fn.Signature.TypeParams().Len() > 0 {
		return nil
	}
	pkg := fn.Pkg.Pkg
	imports := map[string]string{}
	qual := func(p *types.Package) string {
		if p == pkg {
			return ""
		}
		imports[p.Name()] = p.Path()
		return p.Name()
	}
	ri := &replayInfo{PkgName: pkg.Name(), Call: fn.Name()}
	if !fn.Pos().IsValid() {
		return nil
	}
	file := g.fset.Position(fn.Pos()).Filename
	rel, err := filepath.Rel(repo, filepath.Dir(file))
	if err != nil || strings.HasPrefix(rel, "..") {
		return nil
	}
	ri.PkgDir = rel
	ps := fn.Signature.Params()
	if ps.Len() == 0 {
		return nil
	}
	for i := 0; i < ps.Len(); i++ {
		p := ps.At(i)
		k := simpleKind(p.Type())
		if k == "" || p.Name() == "" || p.Name() == "_" {
			return nil
		}
		gt := ""
		if k != "any" {
			gt = types.TypeString(p.Type(), qual)
		}
		rp := replayParam{Name: p.Name(), Kind: k, GoType: gt}
		if b, ok := p.Type().Underlying().(*types.Basic); ok && k == "int" {
			rp.Uns = b.Info()&types.IsUnsigned != 0
			switch b.Kind() {
			case types.Int8, types.Uint8:
				rp.Bits = 8
			case types.Int16, types.Uint16:
				rp.Bits = 16
			case types.Int32, types.Uint32:
				rp.Bits = 32
			default:
				rp.Bits = 64
			}
		}
		ri.Params = append(ri.Params, rp)
	}
	rs := fn.Signature.Results()
	for i := 0; i < rs.Len(); i++ {
		ri.Results = append(ri.Results, types.TypeString(rs.At(i).Type(), qual))
	}
	for _, ip := range pkg.Imports() {
		if _, ok := imports[ip.Name()]; !ok {
			imports[ip.Name()] = ip.Path()
		}
	}
	for _, n := range sortedKeys(imports) {
		ri.Imports = append(ri.Imports, [2]string{n, imports[n]})
	}
	return ri
}

// ---- clause -> Go ---------------------------------------------------------------------------

type goTrans struct {
	g       *Gen
	pkg     *types.Package
	fn      *ssa.Function
	results map[string]string // spec name of a result -> Go variable
	bound   map[string]bool   // quantified / spec-function parameter names in scope
	neg     bool              // the expression being translated sits at a negative position
	mixed   int               // > 0: polarity unknown (operand of <==>, ==, a spec-function body)
	specs   map[string]string // spec function name -> Go source of its definition
	order   []string
	fail    string
}

func (t *goTrans) bad(f string, a ...any) string {
	if t.fail == "" {
		t.fail = fmt.Sprintf(f, a...)
	}
	return "false"
}

var goIdent = regexp.MustCompile(`^[A-Za-z_][A-Za-z0-9_]*$`)

func goSpecType(s string) string {
	s = strings.TrimSpace(s)
	if s == "mathint" {
		return "int"
	}
	return s
}

func (t *goTrans) expr(e SExpr, want string) string {
	switch x := e.(type) {
	case *SIdent:
		if r, ok := t.results[x.Name]; ok && !t.bound[x.Name] {
			return r
		}
		if x.Name == "thisfunc" || x.Name == "samestate" {
			return t.bad("%s is not replayable", x.Name)
		}
		return x.Name
	case *SLit:
		return x.Val
	case *SType:
		return x.Text
	case *SUn:
		if x.Op == "!" {
			t.neg = !t.neg
			r := "(!" + t.expr(x.X, "bool") + ")"
			t.neg = !t.neg
			return r
		}
		return "(" + x.Op + t.expr(x.X, want) + ")"
	case *SBin:
		switch x.Op {
		case "==>":
			t.neg = !t.neg
			l := t.expr(x.L, "bool")
			t.neg = !t.neg
			return "(!(" + l + ") || (" + t.expr(x.R, "bool") + "))"
		case "<==>":
			t.mixed++
			defer func() { t.mixed-- }()
			return "((" + t.expr(x.L, "bool") + ") == (" + t.expr(x.R, "bool") + "))"
		case "&&", "||":
			return "(" + t.expr(x.L, "bool") + " " + x.Op + " " + t.expr(x.R, "bool") + ")"
		case "==", "!=", "<", "<=", ">", ">=":
			t.mixed++
			defer func() { t.mixed-- }()
			// X op (c ? a : b): distribute, so that no Go type is needed for the conditional
			if c, ok := x.R.(*SCond); ok && want != "nodistr" {
				return fmt.Sprintf("func() bool { if %s { return %s }; return %s }()", t.expr(c.C, "bool"),
					t.expr(&SBin{Op: x.Op, L: x.L, R: c.A}, "bool"), t.expr(&SBin{Op: x.Op, L: x.L, R: c.B}, "bool"))
			}
			if c, ok := x.L.(*SCond); ok {
				return fmt.Sprintf("func() bool { if %s { return %s }; return %s }()", t.expr(c.C, "bool"),
					t.expr(&SBin{Op: x.Op, L: c.A, R: x.R}, "bool"), t.expr(&SBin{Op: x.Op, L: c.B, R: x.R}, "bool"))
			}
			return "(" + t.expr(x.L, "") + " " + x.Op + " " + t.expr(x.R, "") + ")"
		case "+", "-", "*", "/", "%", "&", "|", "^", "<<", ">>":
			return "(" + t.expr(x.L, want) + " " + x.Op + " " + t.expr(x.R, want) + ")"
		}
		return t.bad("operator %s", x.Op)
	case *SCond:
		if want == "" {
			return t.bad("conditional expression at a position whose Go type is not known")
		}
		return fmt.Sprintf("func() %s { if %s { return %s }; return %s }()", want, t.expr(x.C, "bool"), t.expr(x.A, want), t.expr(x.B, want))
	case *SSel:
		return t.expr(x.X, "") + "." + x.Name
	case *SIndex:
		return t.expr(x.X, "") + "[" + t.expr(x.I, "int") + "]"
	case *SSlice:
		lo, hi := "", ""
		if x.Lo != nil {
			lo = t.expr(x.Lo, "int")
		}
		if x.Hi != nil {
			hi = t.expr(x.Hi, "int")
		}
		return t.expr(x.X, "") + "[" + lo + ":" + hi + "]"
	case *SAssert:
		return t.expr(x.X, "") + ".(" + x.Type + ")"
	case *SQuant:
		return t.quant(x)
	case *SCall:
		return t.call(x, want)
	}
	return t.bad("expression form %T", e)
}

// quant: a quantifier whose body is `guard ==> body` (forall) or `guard && body` (exists) with
// the guard bounding every variable by an integer interval becomes nested loops over (a superset
// of) the intervals with the whole guard re-tested inside.
func (t *goTrans) quant(q *SQuant) string {
	ty := goSpecType(q.Type)
	if ty == "" {
		ty = "int"
	}
	if ty == "string" || ty == "any" || ty == "bool" || strings.HasPrefix(ty, "*") || strings.HasPrefix(ty, "[") {
		return t.bad("quantifier over %s", ty)
	}
	var rng, body SExpr
	if b, ok := q.Body.(*SBin); ok && ((q.Forall && b.Op == "==>") || (!q.Forall && b.Op == "&&")) {
		rng, body = b.L, b.R
	} else {
		return t.bad("quantifier body is not a guarded range")
	}
	isQ := func(e SExpr) string {
		if id, ok := e.(*SIdent); ok {
			for _, v := range q.Vars {
				if v == id.Name {
					return v
				}
			}
		}
		return ""
	}
	mentionsQ := func(e SExpr) bool {
		txt := e.String()
		for _, v := range q.Vars {
			if regexp.MustCompile(`\b` + regexp.QuoteMeta(v) + `\b`).MatchString(txt) {
				return true
			}
		}
		return false
	}
	saved := map[string]bool{}
	for _, v := range q.Vars {
		saved[v] = t.bound[v]
		t.bound[v] = true
	}
	defer func() {
		for _, v := range q.Vars {
			t.bound[v] = saved[v]
		}
	}()
	lo, hi := map[string]string{}, map[string]string{}
	var pairs [][2]string // a < b or a <= b between two quantified variables
	var walk func(e SExpr)
	walk = func(e SExpr) {
		b, ok := e.(*SBin)
		if !ok {
			return
		}
		if b.Op == "&&" {
			walk(b.L)
			walk(b.R)
			return
		}
		l, r := isQ(b.L), isQ(b.R)
		switch {
		case l != "" && r != "":
			switch b.Op {
			case "<", "<=":
				pairs = append(pairs, [2]string{l, r})
			case ">", ">=":
				pairs = append(pairs, [2]string{r, l})
			}
		case r != "" && !mentionsQ(b.L):
			switch b.Op {
			case "<=":
				lo[r] = t.expr(b.L, ty)
			case "<":
				lo[r] = "(" + t.expr(b.L, ty) + ") + 1"
			case ">":
				hi[r] = t.expr(b.L, ty)
			case ">=":
				hi[r] = "(" + t.expr(b.L, ty) + ") + 1"
			}
		case l != "" && !mentionsQ(b.R):
			switch b.Op {
			case "<":
				hi[l] = t.expr(b.R, ty)
			case "<=":
				hi[l] = "(" + t.expr(b.R, ty) + ") + 1"
			case ">=":
				lo[l] = t.expr(b.R, ty)
			case ">":
				lo[l] = "(" + t.expr(b.R, ty) + ") + 1"
			}
		}
	}
	walk(rng)
	for n := 0; n < len(q.Vars)+1; n++ {
		for _, p := range pairs {
			if hi[p[0]] == "" && hi[p[1]] != "" {
				hi[p[0]] = hi[p[1]]
			}
			if lo[p[1]] == "" && lo[p[0]] != "" {
				lo[p[1]] = lo[p[0]]
			}
		}
	}
	for _, v := range q.Vars {
		if lo[v] == "" || hi[v] == "" {
			return t.bad("quantifier range of %s is not an integer interval", v)
		}
	}
	if q.Forall {
		t.neg = !t.neg
	}
	guard := t.expr(rng, "bool")
	if q.Forall {
		t.neg = !t.neg
	}
	b := t.expr(body, "bool")
	open, close := "", ""
	for _, v := range q.Vars {
		open += fmt.Sprintf("for %s := %s(%s); %s < %s(%s); %s++ { ", v, ty, lo[v], v, ty, hi[v], v)
		close += " }"
	}
	if q.Forall {
		return fmt.Sprintf("func() bool { %sif (%s) && !(%s) { return false }%s; return true }()", open, guard, b, close)
	}
	return fmt.Sprintf("func() bool { %sif (%s) && (%s) { return true }%s; return false }()", open, guard, b, close)
}

func (t *goTrans) call(c *SCall, want string) string {
	args := func(w string) []string {
		var as []string
		for _, a := range c.Args {
			as = append(as, t.expr(a, w))
		}
		return as
	}
	switch c.Fun {
	case "len", "cap":
		return c.Fun + "(" + strings.Join(args(""), ", ") + ")"
	case "int", "int8", "int16", "int32", "int64", "uint", "uint8", "uint16", "uint32", "uint64", "byte", "rune", "float64", "string", "any", "bool":
		if len(c.Args) != 1 {
			return t.bad("conversion %s with %d arguments", c.Fun, len(c.Args))
		}
		return c.Fun + "(" + t.expr(c.Args[0], "") + ")"
	case "mathint":
		return "int(" + t.expr(c.Args[0], "") + ")"
	case "old":
		// parameters of simple kinds are values: the callee cannot change them
		if len(c.Args) == 1 {
			if id, ok := c.Args[0].(*SIdent); ok && t.isParam(id.Name) {
				return id.Name
			}
		}
		return t.bad("old(...) of a heap expression")
	case "typeis":
		if len(c.Args) != 2 {
			return t.bad("typeis arity")
		}
		return fmt.Sprintf("func() bool { _, ok := any(%s).(%s); return ok }()", t.expr(c.Args[0], ""), c.Args[1].String())
	case "fresh":
		// not observable at run time: `true` at a positive position only makes the clause easier
		// to satisfy, so it can hide a violation from the replay but never invent one
		if !t.neg && t.mixed == 0 {
			return "true"
		}
		return t.bad("fresh(...) at a negative position")
	case "same":
		if len(c.Args) == 2 {
			return "verifSame(" + t.expr(c.Args[0], "") + ", " + t.expr(c.Args[1], "") + ")"
		}
		return t.bad("same arity")
	case "isnan":
		return fmt.Sprintf("func() bool { f := float64(%s); return f != f }()", t.expr(c.Args[0], "float64"))
	case "isnil":
		return "(" + t.expr(c.Args[0], "") + " == nil)"
	}
	if strings.Contains(c.Fun, ".") {
		// a conversion to a named type of another package (ast.DType(x)), or a foreign spec function
		i := strings.Index(c.Fun, ".")
		if p := t.g.importedPkg(t.pkg, c.Fun[:i]); p != nil {
			if obj := p.Scope().Lookup(c.Fun[i+1:]); obj != nil {
				if _, ok := obj.(*types.TypeName); ok && len(c.Args) == 1 {
					return c.Fun + "(" + t.expr(c.Args[0], "") + ")"
				}
			}
		}
		return t.bad("call of %s", c.Fun)
	}
	if sf := t.g.lookupSpec(c.Fun, t.pkg); sf != nil && sf.Pkg == t.pkg.Path() && sf.Body != nil {
		t.specFun(sf)
		var as []string
		for i, a := range c.Args {
			w := ""
			if i < len(sf.Params) {
				w = goSpecType(sf.Params[i][1])
			}
			as = append(as, t.expr(a, w))
		}
		return "verifSpec_" + sf.Name + "(" + strings.Join(as, ", ") + ")"
	}
	if obj := t.pkg.Scope().Lookup(c.Fun); obj != nil {
		switch obj.(type) {
		case *types.TypeName:
			if len(c.Args) == 1 {
				return c.Fun + "(" + t.expr(c.Args[0], "") + ")"
			}
		}
	}
	return t.bad("call of %s", c.Fun)
}

func (t *goTrans) isParam(n string) bool {
	ps := t.fn.Signature.Params()
	for i := 0; i < ps.Len(); i++ {
		if ps.At(i).Name() == n {
			return true
		}
	}
	return false
}

func (t *goTrans) specFun(sf *SpecFun) {
	if _, ok := t.specs[sf.Name]; ok {
		return
	}
	t.specs[sf.Name] = "" // recursion guard
	t.order = append(t.order, sf.Name)
	var ps []string
	savedBound := t.bound
	t.bound = map[string]bool{}
	for _, p := range sf.Params {
		if !goIdent.MatchString(p[0]) {
			t.bad("spec function parameter %q", p[0])
		}
		ps = append(ps, p[0]+" "+goSpecType(p[1]))
		t.bound[p[0]] = true
	}
	ret := goSpecType(sf.Ret)
	t.mixed++
	body := t.expr(sf.Body, ret)
	t.mixed--
	t.bound = savedBound
	var unused []string
	for _, p := range sf.Params {
		unused = append(unused, "_ = "+p[0])
	}
	t.specs[sf.Name] = fmt.Sprintf("func verifSpec_%s(%s) %s {\n\t%s\n\treturn %s\n}\n", sf.Name, strings.Join(ps, ", "), ret, strings.Join(unused, "; "), body)
}

// goClause: the Go text of a clause of fn's contract and the spec-function definitions it
// needs; ok=false (with the reason) when the clause is outside the translatable fragment.
func (g *Gen) goClause(fn *ssa.Function, text string) (code, helpers string, imports [][2]string, why string) {
	defer func() {
		if r := recover(); r != nil {
			code, helpers, imports, why = "", "", nil, fmt.Sprint(r)
		}
	}()
	e, err := parseSpec(text)
	if err != nil {
		return "", "", nil, "clause does not parse: " + err.Error()
	}
	t := &goTrans{g: g, pkg: fn.Pkg.Pkg, fn: fn, results: map[string]string{}, bound: map[string]bool{}, specs: map[string]string{}}
	rs := fn.Signature.Results()
	for i := 0; i < rs.Len(); i++ {
		t.results[fmt.Sprintf("result%d", i)] = fmt.Sprintf("verifR%d", i)
		if n := rs.At(i).Name(); n != "" && n != "_" {
			t.results[n] = fmt.Sprintf("verifR%d", i)
		}
	}
	if rs.Len() == 1 {
		t.results["result"] = "verifR0"
	}
	code = t.expr(e, "bool")
	if t.fail != "" {
		return "", "", nil, t.fail
	}
	sort.Strings(t.order)
	for _, n := range t.order {
		helpers += t.specs[n]
	}
	// packages the generated text mentions
	seen := map[string]bool{}
	for _, m := range goQualified.FindAllStringSubmatch(code+"\n"+helpers, -1) {
		name, member := m[1], m[2]
		if seen[name] || t.isParam(name) {
			continue
		}
		if p := g.importedPkg(t.pkg, name); p != nil && p != t.pkg && p.Scope().Lookup(member) != nil {
			seen[name] = true
			imports = append(imports, [2]string{name, p.Path()})
		}
	}
	return code, helpers, imports, ""
}

var goQualified = regexp.MustCompile(`\b([A-Za-z_][A-Za-z0-9_]*)\.([A-Za-z_][A-Za-z0-9_]*)`)

var _ = token.ADD
