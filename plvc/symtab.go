// symtab.go: tolerance for two harmless refactorings of the code under contract.
//
// Contracts name parameters and - in loop invariants - local variables of the function they
// belong to.  Every run emits, for every function of the module, its parameter names and its
// local variables (name, type, ordinal among the locals of that type in source order); the
// table of the pinned tree is committed with the baseline (baseline/symtab.json) and handed
// back with -symtab.  Then
//   - a name a contract uses that no longer exists in the function, while the variable in the
//     same position (same parameter index; same type and same ordinal among the locals of
//     that type) carries a name the old function did not have, is bound to that variable
//     (a renamed parameter or local).  A wrong guess can only make a proof fail;
//   - a module function that is called without a contract and is not in the table - a helper
//     extracted after the contracts were written - is executed inline at its call site
//     (loop-free, defer-free bodies; otherwise it stays an unknown call).
package main

import (
	"encoding/json"
	"go/ast"
	"go/types"
	"os"
	"sort"

	"golang.org/x/tools/go/ssa"
)

type symLocal struct {
	Name string `json:"n"`
	Type string `json:"t"`
	K    int    `json:"k"`
}

type symEntry struct {
	Params []string   `json:"params"`
	Locals []symLocal `json:"locals,omitempty"`
}

func (g *Gen) symEntryOf(fn *ssa.Function) *symEntry {
	e := &symEntry{Params: sigParamNames(fn.Signature, true)}
	syn := fn.Syntax()
	if syn == nil || fn.Pkg == nil {
		return e
	}
	pkg := g.byPath[fn.Pkg.Pkg.Path()]
	if pkg == nil {
		return e
	}
	isParam := map[*types.Var]bool{}
	sig := fn.Signature
	if sig.Recv() != nil {
		isParam[sig.Recv()] = true
	}
	for i := 0; i < sig.Params().Len(); i++ {
		isParam[sig.Params().At(i)] = true
	}
	var vars []*types.Var
	ast.Inspect(syn, func(n ast.Node) bool {
		if id, ok := n.(*ast.Ident); ok {
			if v, ok := pkg.TypesInfo.Defs[id].(*types.Var); ok && v != nil && !v.IsField() && !isParam[v] && v.Name() != "_" {
				vars = append(vars, v)
			}
		}
		return true
	})
	sort.SliceStable(vars, func(i, j int) bool { return vars[i].Pos() < vars[j].Pos() })
	count := map[string]int{}
	for _, v := range vars {
		t := types.TypeString(v.Type(), nil)
		e.Locals = append(e.Locals, symLocal{Name: v.Name(), Type: t, K: count[t]})
		count[t]++
	}
	return e
}

func (g *Gen) symtabOfTree() map[string]*symEntry {
	out := map[string]*symEntry{}
	for _, fn := range g.allFunctions() {
		if fn.Pkg == nil || !g.inModule(fn.Pkg.Pkg.Path()) || fn.Parent() != nil {
			continue
		}
		out[fn.String()] = g.symEntryOf(fn)
	}
	return out
}

func loadSymtab(path string) map[string]*symEntry {
	if path == "" {
		return nil
	}
	b, err := os.ReadFile(path)
	if err != nil {
		return nil
	}
	var m map[string]*symEntry
	if json.Unmarshal(b, &m) != nil {
		return nil
	}
	return m
}

// renamesOf: old name -> current name, for the names of fn that the pinned tree had and the
// working tree lacks while the variable in the same position carries a new name.
func (g *Gen) renamesOf(fn *ssa.Function) map[string]string {
	if g.oldSyms == nil || fn == nil {
		return nil
	}
	if r, ok := g.renameCache[fn]; ok {
		return r
	}
	r := map[string]string{}
	g.renameCache[fn] = r
	old := g.oldSyms[fn.String()]
	if old == nil {
		return r
	}
	cur := g.symEntryOf(fn)
	curNames, oldNames := map[string]bool{}, map[string]bool{}
	for _, n := range cur.Params {
		curNames[n] = true
	}
	for _, l := range cur.Locals {
		curNames[l.Name] = true
	}
	for _, n := range old.Params {
		oldNames[n] = true
	}
	for _, l := range old.Locals {
		oldNames[l.Name] = true
	}
	if len(old.Params) == len(cur.Params) {
		for i, n := range old.Params {
			if n != cur.Params[i] && !curNames[n] && !oldNames[cur.Params[i]] {
				r[n] = cur.Params[i]
			}
		}
	}
	for _, ol := range old.Locals {
		if curNames[ol.Name] {
			continue
		}
		for _, cl := range cur.Locals {
			if cl.Type == ol.Type && cl.K == ol.K && !oldNames[cl.Name] {
				if _, dup := r[ol.Name]; !dup {
					r[ol.Name] = cl.Name
				}
			}
		}
	}
	return r
}

// contractNames: the parameter names as the contract knows them (a renamed parameter keeps
// the name it had on the pinned tree).
func (g *Gen) contractNames(fn *ssa.Function, names []string) []string {
	rn := g.renamesOf(fn)
	if len(rn) == 0 {
		return names
	}
	back := map[string]string{}
	for o, c := range rn {
		back[c] = o
	}
	out := make([]string, len(names))
	for i, n := range names {
		if o, ok := back[n]; ok {
			out[i] = o
		} else {
			out[i] = n
		}
	}
	return out
}

// isNewFunction: a module function that did not exist when the baseline was written.
func (g *Gen) isNewFunction(fn *ssa.Function) bool {
	if g.oldSyms == nil || fn == nil || fn.Pkg == nil || fn.Parent() != nil || !g.inModule(fn.Pkg.Pkg.Path()) {
		return false
	}
	_, ok := g.oldSyms[fn.String()]
	return !ok
}

// ctName: the name the contract of the function under verification uses for parameter p
func (fg *FuncGen) ctName(p *ssa.Parameter) string {
	for o, c := range fg.g.renamesOf(fg.fn) {
		if c == p.Name() {
			return o
		}
	}
	return p.Name()
}
