package main

// SMT-level vocabulary: sorts for Go types, the prelude, type ids, string
// constants, small term builders. Everything is plain SMT-LIB text.

import (
	"fmt"
	"go/constant"
	"go/types"
	"math"
	"math/big"
	"sort"
	"strings"
)

// Enc holds everything whose declaration is shared by all obligations of one
// function: integer mode, lazily declared sorts / functions / constants.
type Enc struct {
	bv bool // integer mode: true = 64-bit vectors (Go wrap-around), false = mathematical Int + overflow obligations

	decls     []string          // declarations in emission order
	declared  map[string]bool   // names already declared
	typeIDs   map[string]int    // Go type string -> id used inside Any
	typeOrder []string          // ids in order
	strConsts map[string]string // literal -> const name
	strOrder  []string
	structs   map[string]bool // struct datatype sorts declared
	axioms    []string        // global axioms (asserted in every query)
	axiomSeen map[string]bool
	usesQuant bool
	fresh     int
}

func newEnc(bv bool) *Enc {
	return &Enc{bv: bv, declared: map[string]bool{}, typeIDs: map[string]int{}, strConsts: map[string]string{},
		structs: map[string]bool{}, axiomSeen: map[string]bool{}}
}

func (e *Enc) freshName(prefix string) string {
	e.fresh++
	return fmt.Sprintf("%s!%d", prefix, e.fresh)
}

func (e *Enc) declare(name, decl string) {
	if e.declared[name] {
		return
	}
	e.declared[name] = true
	e.decls = append(e.decls, decl)
}

func (e *Enc) declConst(name, sort string) string {
	e.declare(name, fmt.Sprintf("(declare-const %s %s)", q(name), sort))
	return q(name)
}

func (e *Enc) declFun(name string, args []string, ret string) {
	e.declare(name, fmt.Sprintf("(declare-fun %s (%s) %s)", q(name), strings.Join(args, " "), ret))
}

func (e *Enc) axiom(a string) {
	if e.axiomSeen[a] {
		return
	}
	e.axiomSeen[a] = true
	e.axioms = append(e.axioms, a)
	if strings.Contains(a, "(forall ") || strings.Contains(a, "(exists ") {
		e.usesQuant = true
	}
}

// q quotes a symbol when it is not a simple SMT-LIB symbol.
func q(s string) string {
	simple := true
	for _, c := range s {
		if !(c >= 'a' && c <= 'z' || c >= 'A' && c <= 'Z' || c >= '0' && c <= '9' || strings.ContainsRune("_.!$~^<>@%&*-+=/?", c)) {
			simple = false
			break
		}
	}
	if simple && s != "" && !(s[0] >= '0' && s[0] <= '9') {
		return s
	}
	return "|" + strings.ReplaceAll(strings.ReplaceAll(s, "|", "!"), "\\", "!") + "|"
}

// ---- integer helpers -------------------------------------------------------

func intInfo(t types.Type) (bits int, signed bool, ok bool) {
	b, isb := t.Underlying().(*types.Basic)
	if !isb {
		return 0, false, false
	}
	switch b.Kind() {
	case types.Int, types.Int64, types.UntypedInt, types.UntypedRune:
		return 64, true, true
	case types.Int32:
		return 32, true, true
	case types.Int16:
		return 16, true, true
	case types.Int8:
		return 8, true, true
	case types.Uint, types.Uint64, types.Uintptr:
		return 64, false, true
	case types.Uint32:
		return 32, false, true
	case types.Uint16:
		return 16, false, true
	case types.Uint8:
		return 8, false, true
	}
	return 0, false, false
}

func isInt(t types.Type) bool { _, _, ok := intInfo(t); return ok }
func isFloat(t types.Type) bool {
	b, ok := t.Underlying().(*types.Basic)
	return ok && b.Info()&types.IsFloat != 0
}
func isString(t types.Type) bool {
	b, ok := t.Underlying().(*types.Basic)
	return ok && b.Info()&types.IsString != 0
}
func isBool(t types.Type) bool {
	b, ok := t.Underlying().(*types.Basic)
	return ok && b.Info()&types.IsBoolean != 0
}
func isIface(t types.Type) bool { _, ok := t.Underlying().(*types.Interface); return ok }
func isPtr(t types.Type) bool   { _, ok := t.Underlying().(*types.Pointer); return ok }
func isSlice(t types.Type) bool { _, ok := t.Underlying().(*types.Slice); return ok }
func isMap(t types.Type) bool   { _, ok := t.Underlying().(*types.Map); return ok }
func isStruct(t types.Type) bool {
	_, ok := t.Underlying().(*types.Struct)
	return ok
}
func isArray(t types.Type) bool { _, ok := t.Underlying().(*types.Array); return ok }
func isFunc(t types.Type) bool  { _, ok := t.Underlying().(*types.Signature); return ok }

func (e *Enc) intSort(bits int) string {
	if e.bv {
		return fmt.Sprintf("(_ BitVec %d)", bits)
	}
	return "Int"
}

// INT is the sort of Go int (lengths, indices).
func (e *Enc) INT() string { return e.intSort(64) }

func (e *Enc) intLit(v *big.Int, bits int) string {
	if e.bv {
		m := new(big.Int).Lsh(big.NewInt(1), uint(bits))
		x := new(big.Int).Mod(v, m)
		return fmt.Sprintf("(_ bv%s %d)", x.String(), bits)
	}
	if v.Sign() < 0 {
		return fmt.Sprintf("(- %s)", new(big.Int).Neg(v).String())
	}
	return v.String()
}

func (e *Enc) ilit(v int64) string { return e.intLit(big.NewInt(v), 64) }

func (e *Enc) ilitT(v int64, t types.Type) string {
	bits, _, ok := intInfo(t)
	if !ok {
		bits = 64
	}
	return e.intLit(big.NewInt(v), bits)
}

func minMax(bits int, signed bool) (*big.Int, *big.Int) {
	if signed {
		hi := new(big.Int).Lsh(big.NewInt(1), uint(bits-1))
		lo := new(big.Int).Neg(hi)
		return lo, hi.Sub(hi, big.NewInt(1))
	}
	hi := new(big.Int).Lsh(big.NewInt(1), uint(bits))
	return big.NewInt(0), hi.Sub(hi, big.NewInt(1))
}

// rangeFact: in math mode, a Go integer value lies within its type's range.
func (e *Enc) rangeFact(term string, t types.Type) string {
	if e.bv || isGhostInt(t) {
		return "" // mathematical integers have no machine range
	}
	bits, signed, ok := intInfo(t)
	if !ok {
		return ""
	}
	lo, hi := minMax(bits, signed)
	return fmt.Sprintf("(and (<= %s %s) (<= %s %s))", e.intLit(lo, bits), term, term, e.intLit(hi, bits))
}

// binary integer operators
func (e *Enc) iop(op string, a, b string, signed bool) string {
	if e.bv {
		m := map[string]string{"+": "bvadd", "-": "bvsub", "*": "bvmul", "&": "bvand", "|": "bvor", "^": "bvxor"}
		if f, ok := m[op]; ok {
			return fmt.Sprintf("(%s %s %s)", f, a, b)
		}
		switch op {
		case "/":
			if signed {
				return fmt.Sprintf("(bvsdiv %s %s)", a, b)
			}
			return fmt.Sprintf("(bvudiv %s %s)", a, b)
		case "%":
			if signed {
				return fmt.Sprintf("(bvsrem %s %s)", a, b)
			}
			return fmt.Sprintf("(bvurem %s %s)", a, b)
		case "<":
			if signed {
				return fmt.Sprintf("(bvslt %s %s)", a, b)
			}
			return fmt.Sprintf("(bvult %s %s)", a, b)
		case "<=":
			if signed {
				return fmt.Sprintf("(bvsle %s %s)", a, b)
			}
			return fmt.Sprintf("(bvule %s %s)", a, b)
		case ">":
			if signed {
				return fmt.Sprintf("(bvsgt %s %s)", a, b)
			}
			return fmt.Sprintf("(bvugt %s %s)", a, b)
		case ">=":
			if signed {
				return fmt.Sprintf("(bvsge %s %s)", a, b)
			}
			return fmt.Sprintf("(bvuge %s %s)", a, b)
		case "<<":
			return fmt.Sprintf("(bvshl %s %s)", a, b)
		case ">>":
			if signed {
				return fmt.Sprintf("(bvashr %s %s)", a, b)
			}
			return fmt.Sprintf("(bvlshr %s %s)", a, b)
		}
		panic("iop bv " + op)
	}
	switch op {
	case "+", "-", "*", "<", "<=", ">", ">=":
		return fmt.Sprintf("(%s %s %s)", op, a, b)
	case "/":
		e.needGoDiv()
		return fmt.Sprintf("(godiv %s %s)", a, b)
	case "%":
		e.needGoDiv()
		return fmt.Sprintf("(gomod %s %s)", a, b)
	case "&", "|", "^", "<<", ">>":
		// not modelled in math mode: uninterpreted
		f := "mathop_" + map[string]string{"&": "and", "|": "or", "^": "xor", "<<": "shl", ">>": "shr"}[op]
		e.declFun(f, []string{"Int", "Int"}, "Int")
		return fmt.Sprintf("(%s %s %s)", f, a, b)
	}
	panic("iop math " + op)
}

func (e *Enc) needGoDiv() {
	e.declare("godiv", `(define-fun godiv ((a Int) (b Int)) Int (ite (>= a 0) (ite (> b 0) (div a b) (- (div a (- b)))) (ite (> b 0) (- (div (- a) b)) (div (- a) (- b)))))`)
	e.declare("gomod", `(define-fun gomod ((a Int) (b Int)) Int (- a (* b (godiv a b))))`)
}

// ---- floats ----------------------------------------------------------------

const F64 = "(_ FloatingPoint 11 53)"
const F32 = "(_ FloatingPoint 8 24)"

func floatLit(f float64, bits int) string {
	if bits == 32 {
		b := math.Float32bits(float32(f))
		return fmt.Sprintf("(fp #b%01b #b%08b #b%023b)", b>>31, (b>>23)&0xff, b&0x7fffff)
	}
	b := math.Float64bits(f)
	return fmt.Sprintf("(fp #b%01b #b%011b #b%052b)", b>>63, (b>>52)&0x7ff, b&0xfffffffffffff)
}

// ---- sorts -----------------------------------------------------------------

const Ref = "Int"

func typeKey(t types.Type) string {
	return canonAny(types.TypeString(t, func(p *types.Package) string { return p.Path() }))
}

// canonAny: `any` and `interface{}` are one type; one spelling, so that they share heap components.
func canonAny(s string) string {
	return strings.ReplaceAll(strings.ReplaceAll(s, "interface {}", "any"), "interface{}", "any")
}

func shortType(t types.Type) string {
	s := canonAny(types.TypeString(t, func(p *types.Package) string { return p.Name() }))
	r := strings.NewReplacer(" ", "", "*", "P.", "[]", "S.", "[", "A", "]", ".", "{", "(", "}", ")", ";", ",", "\"", "'")
	return r.Replace(s)
}

func (e *Enc) sortOf(t types.Type) string {
	if n, ok := t.(*types.Named); ok && n.Obj().Name() == "mathint" && n.Obj().Pkg() == nil {
		return "Int"
	}
	switch u := t.Underlying().(type) {
	case *types.Basic:
		switch {
		case u.Info()&types.IsBoolean != 0:
			return "Bool"
		case u.Info()&types.IsInteger != 0:
			bits, _, _ := intInfo(u)
			return e.intSort(bits)
		case u.Kind() == types.Float32:
			return F32
		case u.Info()&types.IsFloat != 0:
			return F64
		case u.Info()&types.IsString != 0:
			e.needStr()
			return "Str"
		case u.Kind() == types.UnsafePointer:
			return Ref
		case u.Kind() == types.UntypedNil:
			return Ref
		}
		e.declare("sort Opaque", "(declare-sort Opaque 0)")
		return "Opaque"
	case *types.Pointer, *types.Map, *types.Chan, *types.Signature:
		return Ref
	case *types.Slice:
		e.needSlice()
		return "Slice"
	case *types.Interface:
		e.needAny()
		return "Any"
	case *types.Array:
		return fmt.Sprintf("(Array %s %s)", e.INT(), e.sortOf(u.Elem()))
	case *types.Struct:
		return e.structSort(t, u)
	case *types.Tuple:
		return "Tuple"
	}
	e.declare("sort Opaque", "(declare-sort Opaque 0)")
	return "Opaque"
}

func (e *Enc) needStr() {
	if e.declared["sort Str"] {
		return
	}
	e.declare("sort Str", "(declare-sort Str 0)")
	u8 := e.intSort(8)
	e.declFun("slen", []string{"Str"}, e.INT())
	e.declFun("sbyte", []string{"Str", e.INT()}, u8)
}

func (e *Enc) needSlice() {
	if e.declared["sort Slice"] {
		return
	}
	I := e.INT()
	e.declare("sort Slice", fmt.Sprintf("(declare-datatypes ((Slice 0)) (((mkslice (sbase Int) (soff %s) (sllen %s) (slcap %s)))))", I, I, I))
}

func (e *Enc) needAny() {
	if e.declared["sort Any"] {
		return
	}
	e.needStr()
	e.needSlice()
	e.declare("sort Any", fmt.Sprintf("(declare-datatypes ((Any 0)) (((anil) (aint (aint_t Int) (aint_v %s)) (aflt (aflt_t Int) (aflt_v %s)) (abool (abool_t Int) (abool_v Bool)) (astr (astr_t Int) (astr_v Str)) (aslice (aslice_t Int) (aslice_v Slice)) (aref (aref_t Int) (aref_v Int)) (aopq (aopq_t Int) (aopq_v Int)))))", e.intSort(64), F64))
	// atag: the dynamic type id of an interface value (0 for nil)
	e.declare("atag", "(define-fun atag ((x Any)) Int (ite ((_ is anil) x) 0 (ite ((_ is aint) x) (aint_t x) (ite ((_ is aflt) x) (aflt_t x) (ite ((_ is abool) x) (abool_t x) (ite ((_ is astr) x) (astr_t x) (ite ((_ is aslice) x) (aslice_t x) (ite ((_ is aref) x) (aref_t x) (aopq_t x)))))))))")
}

func (e *Enc) structName(t types.Type) string {
	return "S_" + shortType(t)
}

func (e *Enc) structSort(t types.Type, u *types.Struct) string {
	name := e.structName(t)
	if _, ok := t.(*types.Named); !ok {
		name = fmt.Sprintf("S_anon%d", e.typeID(t))
	}
	if e.structs[name] {
		return q(name)
	}
	e.structs[name] = true
	var fs []string
	for i := 0; i < u.NumFields(); i++ {
		fs = append(fs, fmt.Sprintf("(%s %s)", q(fmt.Sprintf("%s.%s", name, fieldSelName(u, i))), e.sortOf(u.Field(i).Type())))
	}
	if len(fs) == 0 {
		e.declare("sort "+name, fmt.Sprintf("(declare-datatypes ((%s 0)) (((%s))))", q(name), q("mk_"+name)))
	} else {
		e.declare("sort "+name, fmt.Sprintf("(declare-datatypes ((%s 0)) (((%s %s))))", q(name), q("mk_"+name), strings.Join(fs, " ")))
	}
	return q(name)
}

func (e *Enc) structCtor(t types.Type) string {
	e.sortOf(t)
	name := e.structName(t)
	if _, ok := t.(*types.Named); !ok {
		name = fmt.Sprintf("S_anon%d", e.typeID(t))
	}
	return q("mk_" + name)
}

func (e *Enc) structSel(t types.Type, i int) string {
	e.sortOf(t)
	name := e.structName(t)
	if _, ok := t.(*types.Named); !ok {
		name = fmt.Sprintf("S_anon%d", e.typeID(t))
	}
	u := t.Underlying().(*types.Struct)
	return q(fmt.Sprintf("%s.%s", name, fieldSelName(u, i)))
}

// fieldSelName: blank fields (`_ noCopy`, `_ [0]*T`) may repeat inside one struct; their
// accessors are numbered so that the datatype declaration stays well-formed.
func fieldSelName(u *types.Struct, i int) string {
	n := u.Field(i).Name()
	if n == "_" {
		return fmt.Sprintf("_%d", i)
	}
	return n
}

// typeID: stable small integer for a concrete Go type (used as dynamic type tag)
func (e *Enc) typeID(t types.Type) int {
	k := typeKey(t)
	if id, ok := e.typeIDs[k]; ok {
		return id
	}
	id := len(e.typeIDs) + 1
	e.typeIDs[k] = id
	e.typeOrder = append(e.typeOrder, k)
	return id
}

// ---- zero values -------------------------------------------------------------

func (e *Enc) zero(t types.Type) string {
	switch u := t.Underlying().(type) {
	case *types.Basic:
		switch {
		case u.Info()&types.IsBoolean != 0:
			return "false"
		case u.Info()&types.IsInteger != 0:
			return e.ilitT(0, u)
		case u.Kind() == types.Float32:
			return floatLit(0, 32)
		case u.Info()&types.IsFloat != 0:
			return floatLit(0, 64)
		case u.Info()&types.IsString != 0:
			return e.strConst("")
		}
		return "0"
	case *types.Pointer, *types.Map, *types.Chan, *types.Signature:
		return "0"
	case *types.Slice:
		e.needSlice()
		return fmt.Sprintf("(mkslice 0 %s %s %s)", e.ilit(0), e.ilit(0), e.ilit(0))
	case *types.Interface:
		e.needAny()
		return "anil"
	case *types.Array:
		return fmt.Sprintf("((as const %s) %s)", e.sortOf(t), e.zero(u.Elem()))
	case *types.Struct:
		if u.NumFields() == 0 {
			return e.structCtor(t)
		}
		var fs []string
		for i := 0; i < u.NumFields(); i++ {
			fs = append(fs, e.zero(u.Field(i).Type()))
		}
		return fmt.Sprintf("(%s %s)", e.structCtor(t), strings.Join(fs, " "))
	}
	name := e.freshName("zero")
	return e.declConst(name, e.sortOf(t))
}

// ---- strings -----------------------------------------------------------------

func (e *Enc) strConst(s string) string {
	e.needStr()
	if n, ok := e.strConsts[s]; ok {
		return n
	}
	name := fmt.Sprintf("str%d", len(e.strConsts))
	if len(s) <= 12 {
		ok := true
		for _, c := range s {
			if !(c >= 'a' && c <= 'z' || c >= 'A' && c <= 'Z' || c >= '0' && c <= '9' || c == '_') {
				ok = false
			}
		}
		if ok && s != "" {
			name += "_" + s
		}
	}
	e.strConsts[s] = q(name)
	e.strOrder = append(e.strOrder, s)
	e.declare("strconst "+name, fmt.Sprintf("(declare-const %s Str)", q(name)))
	return q(name)
}

// strFacts: lengths/bytes of every interned literal + pairwise distinctness.
func (e *Enc) strFacts() []string {
	var out []string
	var names []string
	for _, s := range e.strOrder {
		n := e.strConsts[s]
		names = append(names, n)
		out = append(out, fmt.Sprintf("(assert (= (slen %s) %s))", n, e.ilit(int64(len(s)))))
		if len(s) <= 64 {
			for i := 0; i < len(s); i++ {
				out = append(out, fmt.Sprintf("(assert (= (sbyte %s %s) %s))", n, e.ilit(int64(i)), e.intLit(big.NewInt(int64(s[i])), 8)))
			}
		}
	}
	if len(names) > 1 {
		out = append(out, fmt.Sprintf("(assert (distinct %s))", strings.Join(names, " ")))
	}
	return out
}

// strEq builds (= a b) and, when one side is a short literal, records the
// ground instance of extensionality that ties = to length and bytes.
func (e *Enc) strEq(a, b string) string {
	eq := fmt.Sprintf("(= %s %s)", a, b)
	if strings.Contains(a, "q_") || strings.Contains(b, "q_") {
		return eq // bound variable: no ground instance possible
	}
	for _, pair := range [][2]string{{a, b}, {b, a}} {
		x, c := pair[0], pair[1]
		for lit, name := range e.strConsts {
			if name == c && len(lit) <= 8 && x != c {
				conj := []string{fmt.Sprintf("(= (slen %s) %s)", x, e.ilit(int64(len(lit))))}
				for i := 0; i < len(lit); i++ {
					conj = append(conj, fmt.Sprintf("(= (sbyte %s %s) %s)", x, e.ilit(int64(i)), e.intLit(big.NewInt(int64(lit[i])), 8)))
				}
				e.axiom(fmt.Sprintf("(= %s (and %s))", eq, strings.Join(conj, " ")))
			}
		}
	}
	return eq
}

// ---- constants -------------------------------------------------------------------

func (e *Enc) constTerm(v constant.Value, t types.Type) (string, bool) {
	if v == nil {
		return e.zero(t), true
	}
	switch u := t.Underlying().(type) {
	case *types.Basic:
		switch {
		case u.Info()&types.IsBoolean != 0:
			if constant.BoolVal(v) {
				return "true", true
			}
			return "false", true
		case u.Info()&types.IsInteger != 0:
			bits, _, _ := intInfo(u)
			bi, ok := constant.Val(constant.ToInt(v)).(*big.Int)
			if !ok {
				i64, exact := constant.Int64Val(constant.ToInt(v))
				if !exact {
					u64, _ := constant.Uint64Val(constant.ToInt(v))
					bi = new(big.Int).SetUint64(u64)
				} else {
					bi = big.NewInt(i64)
				}
			}
			return e.intLit(bi, bits), true
		case u.Info()&types.IsFloat != 0:
			f, _ := constant.Float64Val(v)
			if u.Kind() == types.Float32 {
				return floatLit(f, 32), true
			}
			return floatLit(f, 64), true
		case u.Info()&types.IsString != 0:
			return e.strConst(constant.StringVal(v)), true
		}
	}
	return "", false
}

// prelude returns the text that precedes the assertions of a query.
func (e *Enc) prelude() string {
	var b strings.Builder
	b.WriteString("(set-option :produce-models true)\n(set-logic ALL)\n")
	for _, d := range e.decls {
		b.WriteString(d)
		b.WriteByte('\n')
	}
	for _, s := range e.strFacts() {
		b.WriteString(s)
		b.WriteByte('\n')
	}
	for _, a := range e.axioms {
		b.WriteString("(assert " + a + ")\n")
	}
	return b.String()
}

func and(xs ...string) string {
	var ys []string
	for _, x := range xs {
		if x == "" || x == "true" {
			continue
		}
		if x == "false" {
			return "false"
		}
		ys = append(ys, x)
	}
	switch len(ys) {
	case 0:
		return "true"
	case 1:
		return ys[0]
	}
	return "(and " + strings.Join(ys, " ") + ")"
}

func or(xs ...string) string {
	var ys []string
	for _, x := range xs {
		if x == "" || x == "false" {
			continue
		}
		if x == "true" {
			return "true"
		}
		ys = append(ys, x)
	}
	switch len(ys) {
	case 0:
		return "false"
	case 1:
		return ys[0]
	}
	return "(or " + strings.Join(ys, " ") + ")"
}

func not(x string) string {
	switch x {
	case "true":
		return "false"
	case "false":
		return "true"
	}
	if strings.HasPrefix(x, "(not ") && balanced(x[5:len(x)-1]) {
		return x[5 : len(x)-1]
	}
	return "(not " + x + ")"
}

func balanced(s string) bool {
	d := 0
	for i, c := range s {
		switch c {
		case '(':
			d++
		case ')':
			d--
			if d < 0 {
				return false
			}
			if d == 0 && i != len(s)-1 {
				return false
			}
		case ' ':
			if d == 0 {
				return false
			}
		}
	}
	return d == 0
}

func implies(a, b string) string {
	if b == "" {
		return "true"
	}
	if a == "" || a == "true" {
		return b
	}
	if a == "false" || b == "true" {
		return "true"
	}
	return fmt.Sprintf("(=> %s %s)", a, b)
}

func ite(c, a, b string) string {
	if c == "true" || a == b {
		return a
	}
	if c == "false" {
		return b
	}
	return fmt.Sprintf("(ite %s %s %s)", c, a, b)
}

func sortedKeys[V any](m map[string]V) []string {
	var ks []string
	for k := range m {
		ks = append(ks, k)
	}
	sort.Strings(ks)
	return ks
}

// sexprArgs splits "(op a b c)" into op and its top-level arguments.
func sexprArgs(t string) (string, []string) {
	if len(t) < 2 || t[0] != '(' || t[len(t)-1] != ')' {
		return "", nil
	}
	body := t[1 : len(t)-1]
	var parts []string
	d, st := 0, -1
	inBar := false
	for i := 0; i < len(body); i++ {
		c := body[i]
		if inBar {
			if c == '|' {
				inBar = false
			}
			continue
		}
		switch c {
		case '|':
			inBar = true
			if st < 0 {
				st = i
			}
		case '(':
			if st < 0 {
				st = i
			}
			d++
		case ')':
			d--
		case ' ', '\n', '\t':
			if d == 0 && st >= 0 {
				parts = append(parts, body[st:i])
				st = -1
			}
		default:
			if st < 0 {
				st = i
			}
		}
	}
	if st >= 0 {
		parts = append(parts, body[st:])
	}
	if len(parts) == 0 {
		return "", nil
	}
	return parts[0], parts[1:]
}

// splitGoal breaks a goal into conjuncts: (and a b) and (=> c (and a b)).
func splitGoal(t string) []string {
	op, args := sexprArgs(t)
	switch op {
	case "and":
		var out []string
		for _, a := range args {
			out = append(out, splitGoal(a)...)
		}
		return out
	case "=>":
		if len(args) == 2 {
			var out []string
			for _, g := range splitGoal(args[1]) {
				out = append(out, implies(args[0], g))
			}
			return out
		}
	}
	return []string{t}
}

func (e *Enc) strByName() map[string]string {
	m := map[string]string{}
	for lit, name := range e.strConsts {
		m[strings.Trim(name, "|")] = lit
	}
	return m
}

func (e *Enc) declaredNames() map[string]bool {
	m := map[string]bool{}
	for k := range e.declared {
		m[k] = true
	}
	for _, n := range e.strConsts {
		m[strings.Trim(n, "|")] = true
	}
	return m
}

// preludeDecls: options, logic and declarations only.
func (e *Enc) preludeDecls() string {
	var b strings.Builder
	b.WriteString("(set-option :produce-models true)\n(set-logic ALL)\n")
	for _, d := range e.decls {
		b.WriteString(d)
		b.WriteByte('\n')
	}
	return b.String()
}

// preludeAsserts: string-literal facts and global axioms as assertion bodies.
func (e *Enc) preludeAsserts() []string {
	var out []string
	for _, s := range e.strFacts() {
		s = strings.TrimSuffix(strings.TrimPrefix(s, "(assert "), ")")
		out = append(out, s)
	}
	out = append(out, e.axioms...)
	return out
}

// at: index of element i of a slice with offset off.  An uninterpreted function (with its
// defining equation added as a ground fact for every ground use) so that quantified facts about
// slice elements have an arithmetic-free pattern to match on.
func (e *Enc) at(off, i string, ground bool) string {
	I := e.INT()
	e.declFun("at", []string{I, I}, I)
	t := fmt.Sprintf("(at %s %s)", off, i)
	if ground {
		e.axiom(fmt.Sprintf("(= %s %s)", t, e.iop("+", off, i, true)))
	} else if !e.bv {
		// bound index: the defining equation, instantiated on at-terms only (math mode)
		e.usesQuant = true
		e.axiom(fmt.Sprintf("(forall ((a %s) (b %s)) (! (= (at a b) (+ a b)) :pattern ((at a b))))", I, I))
	}
	return t
}
