package main

// Verification-condition generation for one function: symbolic execution of the
// go/ssa (NaiveForm) body over an acyclic unfolding (loops cut at their headers
// by invariants), producing an ordered list of assertions and a list of
// obligations, each referring to a prefix of the assertions.

import (
	"fmt"
	"go/ast"
	"go/token"
	"go/types"
	"os"
	"sort"
	"strings"

	"golang.org/x/tools/go/ssa"
)

type Obligation struct {
	Name         string   `json:"name"`
	Kind         string   `json:"kind"`
	Func         string   `json:"func"`
	Props        []string `json:"props"`
	Prefix       int      `json:"-"`
	Goal         string   `json:"-"`
	Cond         string   `json:"-"`
	Parts        []string `json:"-"`
	Files        []string `json:"files"`
	ExpectSat    bool     `json:"expect_sat,omitempty"`
	ThoroughOnly bool     `json:"thorough_only,omitempty"`
	PairedWith   string   `json:"paired_with,omitempty"` // call-site vacuity: the obligation saying the call itself is reached
	Pos          string   `json:"pos"`
	Tainted      string   `json:"tainted,omitempty"`
	Clause       string   `json:"clause,omitempty"`
	File         string   `json:"file"`
	Quant        bool     `json:"quant,omitempty"`
	IntMode      string   `json:"intmode"`
	// replay on the real code (goreplay.go): the clause as a Go expression, where translatable
	GoClause  string      `json:"go_clause,omitempty"`
	GoHelpers string      `json:"go_helpers,omitempty"`
	GoImports [][2]string `json:"go_imports,omitempty"`
	GoWhyNot  string      `json:"go_why_not,omitempty"`
}

type FuncGen struct {
	g   *Gen
	enc *Enc
	fn  *ssa.Function
	ct  *Contract

	vals          map[ssa.Value]Val
	asserts       []string
	obls          []*Obligation
	comps         map[string]*Comp
	ghostSort     map[string]string
	ghostInits    map[string]string
	epochs        int
	entry         *State
	paramVals     map[string]Val
	cur           *State
	reach         string
	block         *ssa.BasicBlock
	tainted       string
	ordinals      map[string]int
	notes         []string // assumptions / abstractions made while generating
	noteSeen      map[string]bool
	props         []string // default property tags
	loops         map[*ssa.BasicBlock]*loopInfo
	iterCells     map[*ssa.Range]string // Range instr -> ghost cell name
	retResults    []Val
	lastPos       token.Pos
	callCount     map[string]int
	nilChecked    map[string]bool
	constLen      map[string]int // slice term -> syntactically known length
	blockOrder    map[*ssa.BasicBlock]int
	invAssumed    map[string]bool
	invTouched    map[string]touched
	returns       []retEdge
	fspec         *frameSpec
	pendingTrace  *traceRec
	pendingFnVal  string
	noSafetyNoted bool
	globalAddrs   []string
	inlineDepth   int
	inlineSeq     int
	closures      map[ssa.Value]*ssa.MakeClosure
	lastAssert    map[string]int
	ownAllocs     []ownAlloc
	known         map[string]touched
	depsCache     map[string][]string
	recording     map[string]bool
	boundary      *State
	muted         bool
	ownMods       map[string][]string // component -> references this function stored to itself ("*" = unknown)
	storeRefHint  string
	inCallHavoc   bool
	inInv         bool
	dirty         map[string]bool
	callEpoch     int
}

type touched struct {
	T    string
	Typ  types.Type
	what string
	cond string // reachability of the point where the object was allocated / written
}

func (fg *FuncGen) touch(ref string, typ types.Type, what string) {
	if t, ok := fg.invTouched[ref]; ok {
		t.cond = or(t.cond, fg.reach)
		fg.invTouched[ref] = t
		return
	}
	fg.invTouched[ref] = touched{T: ref, Typ: typ, what: what, cond: fg.reach}
}

func (fg *FuncGen) note(format string, a ...any) {
	s := fmt.Sprintf(format, a...)
	if !fg.noteSeen[s] {
		fg.noteSeen[s] = true
		fg.notes = append(fg.notes, s)
	}
}

func (fg *FuncGen) taint(format string, a ...any) {
	s := fmt.Sprintf(format, a...)
	if fg.tainted == "" {
		fg.tainted = s
	}
	fg.note("UNSUPPORTED: " + s)
}

func (fg *FuncGen) assume(f string) {
	if f == "" || f == "true" || fg.muted {
		return
	}
	// one assertion per conjunct (finer relevance slicing)
	for _, p := range splitGoal(f) {
		if p != "true" && p != "" {
			if fg.lastAssert[p] > 0 {
				continue // identical assertion already in the prefix
			}
			fg.lastAssert[p] = 1
			fg.asserts = append(fg.asserts, p)
		}
	}
}

func (fg *FuncGen) assumeHere(f string) {
	if f == "" || f == "true" {
		return
	}
	fg.assume(implies(fg.reach, f))
}

// oblige records goal as an obligation at the current point and then assumes it.
func (fg *FuncGen) oblige(kind, text, goal string, props []string, clause string) *Obligation {
	return fg.obligeAt(kind, text, fg.reach, goal, props, clause)
}

func (fg *FuncGen) obligeAt(kind, text, cond, goal string, props []string, clause string) *Obligation {
	if props == nil {
		props = fg.props
	}
	o := &Obligation{Name: fg.oblName(kind, text), Kind: kind, Func: funcDisplayName(fg.fn), Props: props,
		Prefix: len(fg.asserts), Goal: and(cond, not(goal)), Cond: cond, Parts: splitGoal(goal), Tainted: fg.tainted, Clause: clause}
	if fg.lastPos.IsValid() {
		p := fg.g.fset.Position(fg.lastPos)
		o.Pos = fmt.Sprintf("%s:%d", p.Filename, p.Line)
	}
	if fg.enc.bv {
		o.IntMode = "bv64"
	} else {
		o.IntMode = "math"
	}
	nosafety := fg.ct != nil && fg.ct.NoSafety && (strings.HasPrefix(kind, "safe:") || kind == "typeinv" || kind == "pre@call" || kind == "objinv@call")
	if nosafety && !fg.noSafetyNoted {
		fg.noSafetyNoted = true
		fg.note("partial correctness only (`safety off`): in %s run-time panics are not excluded and the preconditions of callees are ASSUMED, not checked", funcDisplayName(fg.fn))
	}
	if goal != "true" && !nosafety {
		fg.obls = append(fg.obls, o)
	}
	if sc := fg.g.selfContained; len(sc) > 0 && !strings.HasPrefix(kind, "safe:") && kind != "typeinv" && kind != "pre@call" && kind != "objinv@call" {
		// experimental (-selfcontained): a clause this run does not check is not assumed for what follows
		carried := false
		for _, w := range sc {
			for _, q := range props {
				if q == w {
					carried = true
				}
			}
		}
		if !carried {
			return o
		}
	}
	fg.assume(implies(cond, goal))
	return o
}

// ---- values -------------------------------------------------------------------

func (fg *FuncGen) freshVal(prefix string, t types.Type) Val {
	if tup, ok := t.(*types.Tuple); ok {
		var vs []Val
		for i := 0; i < tup.Len(); i++ {
			vs = append(vs, fg.freshVal(fmt.Sprintf("%s.%d", prefix, i), tup.At(i).Type()))
		}
		return Val{Typ: t, Tup: vs}
	}
	name := fg.enc.freshName(prefix)
	term := fg.enc.declConst(name, fg.enc.sortOf(t))
	fg.typeFacts(term, t)
	return Val{T: term, Typ: t}
}

// typeFacts: facts every Go value of type t satisfies (ranges, slice shape, allocatedness).
func (fg *FuncGen) typeFacts(term string, t types.Type) {
	if f := fg.typeFactsTerm(term, t, fg.cur); f != "" {
		fg.assume(f)
	}
}

const maxAlloc = int64(1) << 47

func (fg *FuncGen) typeFactsTerm(term string, t types.Type, st *State) string {
	e := fg.enc
	switch u := t.Underlying().(type) {
	case *types.Basic:
		if isInt(u) {
			return e.rangeFact(term, u)
		}
		if isString(u) {
			return and(e.iop("<=", e.ilit(0), fmt.Sprintf("(slen %s)", term), true), e.iop("<=", fmt.Sprintf("(slen %s)", term), e.ilit(maxAlloc), true))
		}
	case *types.Slice:
		z := e.ilit(0)
		off, ln, cp := "(soff "+term+")", "(sllen "+term+")", "(slcap "+term+")"
		sz := fg.g.sizes.Sizeof(u.Elem())
		if sz <= 0 {
			sz = 1
		}
		fs := []string{e.iop("<=", z, off, true), e.iop("<=", z, ln, true), e.iop("<=", ln, cp, true),
			e.iop("<=", cp, e.ilit(maxAlloc/sz), true), e.iop("<=", off, e.ilit(maxAlloc/sz), true),
			fmt.Sprintf("(>= (sbase %s) 0)", term),
			implies(fmt.Sprintf("(= (sbase %s) 0)", term), and(fmt.Sprintf("(= %s %s)", cp, z), fmt.Sprintf("(= %s %s)", off, z)))}
		if st != nil {
			fs = append(fs, fmt.Sprintf("(< (sbase %s) %s)", term, fg.allocTerm(st)))
		}
		return and(fs...)
	case *types.Pointer, *types.Map:
		if st != nil {
			return and(fmt.Sprintf("(>= %s 0)", term), fmt.Sprintf("(< %s %s)", term, fg.allocTerm(st)))
		}
		return fmt.Sprintf("(>= %s 0)", term)
	case *types.Signature, *types.Chan:
		return fmt.Sprintf("(>= %s 0)", term)
	}
	return ""
}

func (fg *FuncGen) val(v ssa.Value) Val {
	switch x := v.(type) {
	case *ssa.Const:
		if x.Value == nil {
			return Val{T: fg.enc.zero(x.Type()), Typ: x.Type()}
		}
		t, ok := fg.enc.constTerm(x.Value, x.Type())
		if !ok {
			fg.taint("constant of type %s", x.Type())
			return fg.freshVal("const", x.Type())
		}
		return Val{T: t, Typ: x.Type()}
	case *ssa.Function:
		return Val{T: fg.funcID(x), Typ: x.Type()}
	case *ssa.Global:
		c := fg.globalComp(x)
		el := x.Type().(*types.Pointer).Elem()
		return Val{Typ: x.Type(), Loc: &Loc{Kind: lGlobal, Comp: c.Name, Root: el, Typ: el, Global: x}}
	case *ssa.Builtin:
		return Val{T: "0", Typ: x.Type()}
	}
	if r, ok := fg.vals[v]; ok {
		return r
	}
	if _, ok := v.(*ssa.FreeVar); ok {
		fg.taint("free variable %s (closure)", v.Name())
	} else {
		fg.note("value %s (%T) used before definition: havocked", v.Name(), v)
	}
	r := fg.freshVal("undef_"+v.Name(), v.Type())
	fg.vals[v] = r
	return r
}

func (fg *FuncGen) funcID(f *ssa.Function) string {
	name := "fn:" + f.String()
	id, ok := fg.g.funcIDs[name]
	if !ok {
		id = len(fg.g.funcIDs) + 1
		fg.g.funcIDs[name] = id
	}
	return fmt.Sprintf("%d", 1000000+id)
}

// term returns the SMT term of a value; pointers that are structured locations are
// not first-class (they never escape by construction of go/ssa "local" allocs).
func (fg *FuncGen) term(v ssa.Value) string {
	x := fg.val(v)
	if x.Loc != nil {
		return fg.reify(x.Loc)
	}
	return x.T
}

func (fg *FuncGen) globalAddr(gl *ssa.Global) string {
	name := "addr_G_" + gl.Pkg.Pkg.Name() + "." + gl.Name()
	first := !fg.enc.declared[name]
	t := fg.enc.declConst(name, "Int")
	if first {
		fg.assume(fmt.Sprintf("(< %s 0)", t))
		// distinct package-level variables have distinct addresses
		for _, o := range fg.globalAddrs {
			fg.assume(fmt.Sprintf("(not (= %s %s))", t, o))
		}
		fg.globalAddrs = append(fg.globalAddrs, t)
	}
	return t
}

// reify turns a location into a reference term where that is meaningful.
func (fg *FuncGen) reify(l *Loc) string {
	if l.Kind == lGlobal && len(l.Path) == 0 && l.Global != nil {
		return fg.globalAddr(l.Global)
	}
	fg.taint("address of %s used as a value", describeLoc(l))
	return fg.enc.declConst(fg.enc.freshName("addr"), "Int")
}

// ---- loads and stores -----------------------------------------------------------

func (fg *FuncGen) cellGet(st *State, a *ssa.Alloc) string {
	if t, ok := st.cells[a]; ok {
		return t
	}
	// cell not (yet) defined on this path: arbitrary
	n := fg.enc.declConst(fg.enc.freshName("cell_"+a.Comment), fg.enc.sortOf(a.Type().(*types.Pointer).Elem()))
	st.cells[a] = n
	return n
}

func (fg *FuncGen) rootGet(st *State, l *Loc) string {
	switch l.Kind {
	case lLocal:
		return fg.cellGet(st, l.Alloc)
	case lField, lBox:
		return fmt.Sprintf("(select %s %s)", fg.get(st, fg.comps[l.Comp]), l.Ref)
	case lElem:
		return fmt.Sprintf("(select (select %s %s) %s)", fg.get(st, fg.comps[l.Comp]), l.Ref, l.Idx)
	case lGlobal:
		return fg.get(st, fg.comps[l.Comp])
	}
	panic("rootGet")
}

func (fg *FuncGen) rootSet(st *State, l *Loc, v string) {
	switch l.Kind {
	case lLocal:
		st.cells[l.Alloc] = fg.named("c_"+l.Alloc.Comment, fg.enc.sortOf(l.Root), v)
	case lField, lBox:
		c := fg.comps[l.Comp]
		fg.storeRefHint = l.Ref
		fg.set(st, c, fmt.Sprintf("(store %s %s %s)", fg.get(st, c), l.Ref, v))
		fg.storeRefHint = ""
	case lElem:
		c := fg.comps[l.Comp]
		h := fg.get(st, c)
		fg.set(st, c, fmt.Sprintf("(store %s %s (store (select %s %s) %s %s))", h, l.Ref, h, l.Ref, l.Idx, v))
	case lGlobal:
		c := fg.comps[l.Comp]
		fg.set(st, c, v)
	}
}

// named introduces a constant for a term (keeps terms small and models readable)
func (fg *FuncGen) named(prefix, sort, term string) string {
	if len(term) < 24 && !strings.Contains(term, " ") {
		return term
	}
	n := fg.enc.declConst(fg.enc.freshName(prefix), sort)
	fg.assume(fmt.Sprintf("(= %s %s)", n, term))
	return n
}

func (fg *FuncGen) pathGet(root string, path []pathElem) string {
	t := root
	for _, p := range path {
		if p.field >= 0 {
			t = fmt.Sprintf("(%s %s)", fg.enc.structSel(p.cont, p.field), t)
		} else {
			t = fmt.Sprintf("(select %s %s)", t, p.idx)
		}
	}
	return t
}

func (fg *FuncGen) pathSet(root string, path []pathElem, v string) string {
	if len(path) == 0 {
		return v
	}
	p := path[0]
	if p.field >= 0 {
		u := p.cont.Underlying().(*types.Struct)
		inner := fg.pathSet(fmt.Sprintf("(%s %s)", fg.enc.structSel(p.cont, p.field), root), path[1:], v)
		var fs []string
		for i := 0; i < u.NumFields(); i++ {
			if i == p.field {
				fs = append(fs, inner)
			} else {
				fs = append(fs, fmt.Sprintf("(%s %s)", fg.enc.structSel(p.cont, i), root))
			}
		}
		return fmt.Sprintf("(%s %s)", fg.enc.structCtor(p.cont), strings.Join(fs, " "))
	}
	inner := fg.pathSet(fmt.Sprintf("(select %s %s)", root, p.idx), path[1:], v)
	return fmt.Sprintf("(store %s %s %s)", root, p.idx, inner)
}

func (fg *FuncGen) loadLoc(st *State, l *Loc) string {
	return fg.pathGet(fg.rootGet(st, l), l.Path)
}

func (fg *FuncGen) storeLoc(st *State, l *Loc, v string) {
	if len(l.Path) == 0 {
		fg.rootSet(st, l, v)
		return
	}
	fg.rootSet(st, l, fg.pathSet(fg.rootGet(st, l), l.Path, v))
}

// embedded struct / array fields of heap objects get their own reference
func (fg *FuncGen) embRef(st types.Type, field int, ref string) string {
	u := st.Underlying().(*types.Struct)
	fn := fmt.Sprintf("emb_%s.%s", shortType(st), fieldSelName(u, field))
	fg.enc.declFun(fn, []string{"Int"}, "Int")
	fg.enc.declFun(fn+"_inv", []string{"Int"}, "Int")
	fg.enc.declFun("embkind", []string{"Int"}, "Int")
	t := fmt.Sprintf("(%s %s)", q(fn), ref)
	fg.enc.declFun("rootOf", []string{"Int"}, "Int")
	fg.assume(fmt.Sprintf("(= (rootOf %s) (rootOf %s))", t, ref))
	id := fg.enc.typeID(st)*100 + field + 1
	fg.assume(and(fmt.Sprintf("(= (%s %s) %s)", q(fn+"_inv"), t, ref), fmt.Sprintf("(= (embkind %s) %d)", t, id),
		implies(fmt.Sprintf("(not (= %s 0))", ref), fmt.Sprintf("(< %s 0)", t)), implies(fmt.Sprintf("(= %s 0)", ref), fmt.Sprintf("(= %s 0)", t))))
	return t
}

// loadRef reads the value of type t stored at plain reference ref.
func (fg *FuncGen) loadRef(st *State, ref string, t types.Type) string {
	switch u := t.Underlying().(type) {
	case *types.Struct:
		if u.NumFields() == 0 {
			return fg.enc.structCtor(t)
		}
		var fs []string
		for i := 0; i < u.NumFields(); i++ {
			ft := u.Field(i).Type()
			if isStruct(ft) || isArray(ft) {
				fs = append(fs, fg.loadRef(st, fg.embRef(t, i, ref), ft))
			} else {
				fs = append(fs, fmt.Sprintf("(select %s %s)", fg.get(st, fg.fieldComp(t, i)), ref))
			}
		}
		return fmt.Sprintf("(%s %s)", fg.enc.structCtor(t), strings.Join(fs, " "))
	case *types.Array:
		// the array lives in row ref of E_elem
		return fmt.Sprintf("(select %s %s)", fg.get(st, fg.elemComp(u.Elem())), ref)
	}
	return fmt.Sprintf("(select %s %s)", fg.get(st, fg.boxComp(t)), ref)
}

func (fg *FuncGen) storeRef(st *State, ref string, t types.Type, v string) {
	if fg.storeRefHint == "" {
		fg.storeRefHint = ref
		defer func() { fg.storeRefHint = "" }()
	}
	switch u := t.Underlying().(type) {
	case *types.Struct:
		v = fg.named("sv", fg.enc.sortOf(t), v)
		for i := 0; i < u.NumFields(); i++ {
			ft := u.Field(i).Type()
			fv := fmt.Sprintf("(%s %s)", fg.enc.structSel(t, i), v)
			if isStruct(ft) || isArray(ft) {
				fg.storeRef(st, fg.embRef(t, i, ref), ft, fv)
			} else {
				c := fg.fieldComp(t, i)
				fg.set(st, c, fmt.Sprintf("(store %s %s %s)", fg.get(st, c), ref, fv))
			}
		}
		return
	case *types.Array:
		c := fg.elemComp(u.Elem())
		fg.set(st, c, fmt.Sprintf("(store %s %s %s)", fg.get(st, c), ref, v))
		return
	}
	c := fg.boxComp(t)
	fg.set(st, c, fmt.Sprintf("(store %s %s %s)", fg.get(st, c), ref, v))
}

func (fg *FuncGen) nilCheck(ref string, pos token.Pos, what string) {
	if ref == "" {
		return
	}
	key := fg.block.String() + "|" + ref
	if fg.nilChecked[key] {
		return
	}
	fg.nilChecked[key] = true
	if strings.HasPrefix(ref, "new!") || strings.HasPrefix(ref, "(emb_") || strings.HasPrefix(ref, "(|emb_") {
		return
	}
	txt := fg.g.srcText(pos, "sel")
	if txt == "" {
		txt = what
	}
	fg.oblige("safe:nil", txt, fmt.Sprintf("(not (= %s 0))", ref), nil, "")
}

// ---- loops ---------------------------------------------------------------------------

type loopInfo struct {
	header     *ssa.BasicBlock
	blocks     map[*ssa.BasicBlock]bool
	backSrc    []*ssa.BasicBlock
	ordinal    int
	spec       *LoopSpec
	scopePos   token.Pos
	headSt     *State
	headReach  string
	decTerm    string
	entrySt    *State
	frameComps []string
	text       string
	rangeIdx   *ssa.Alloc
	rangeLen   string
}

func (fg *FuncGen) findLoops() {
	fg.loops = map[*ssa.BasicBlock]*loopInfo{}
	fn := fg.fn
	for _, b := range fn.Blocks {
		for _, s := range b.Succs {
			if s.Dominates(b) {
				li := fg.loops[s]
				if li == nil {
					li = &loopInfo{header: s, blocks: map[*ssa.BasicBlock]bool{s: true}}
					fg.loops[s] = li
				}
				li.backSrc = append(li.backSrc, b)
				// natural loop: nodes reaching b without passing through s
				stack := []*ssa.BasicBlock{b}
				for len(stack) > 0 {
					n := stack[len(stack)-1]
					stack = stack[:len(stack)-1]
					if li.blocks[n] {
						continue
					}
					li.blocks[n] = true
					stack = append(stack, n.Preds...)
				}
			}
		}
	}
	// ordinals by source statement
	stmts := fg.g.loopStmts(fn)
	for _, li := range fg.loops {
		lo, hi := token.Pos(0), token.Pos(0)
		for b := range li.blocks {
			for _, in := range b.Instrs {
				p := in.Pos()
				if _, isDbg := in.(*ssa.DebugRef); isDbg {
					p = in.(*ssa.DebugRef).Expr.Pos()
				}
				if !p.IsValid() {
					continue
				}
				if lo == 0 || p < lo {
					lo = p
				}
				if p > hi {
					hi = p
				}
			}
		}
		best := -1
		for i, s := range stmts {
			if s.Pos() <= lo && hi <= s.End() {
				if best < 0 || (stmts[best].Pos() <= s.Pos() && s.End() <= stmts[best].End()) {
					best = i
				}
			}
		}
		if best >= 0 {
			li.ordinal = best + 1
			li.scopePos = stmts[best].bodyPos
			if r, ok := stmts[best].Node.(*ast.RangeStmt); ok {
				li.text = "range " + fg.g.exprText(r.X)
			} else {
				li.text = fmt.Sprintf("for-loop %d", li.ordinal)
			}
		}
		if fg.ct != nil {
			li.spec = fg.ct.Loops[li.ordinal]
		}
	}
}

// modified computes what a set of blocks may modify: local cells, heap components, ghosts.
type modSet struct {
	cells  map[*ssa.Alloc]bool
	comps  map[string]bool
	all    bool
	ghosts map[string]bool
}

func (fg *FuncGen) loopMods(li *loopInfo) *modSet {
	ms := &modSet{cells: map[*ssa.Alloc]bool{}, comps: map[string]bool{}, ghosts: map[string]bool{}}
	for b := range li.blocks {
		for _, in := range b.Instrs {
			fg.instrMods(in, ms)
		}
	}
	return ms
}

// rootAlloc follows FieldAddr/IndexAddr chains to a local alloc.
func rootAlloc(v ssa.Value) *ssa.Alloc {
	for {
		switch x := v.(type) {
		case *ssa.Alloc:
			if !x.Heap {
				return x
			}
			return nil
		case *ssa.FieldAddr:
			v = x.X
		case *ssa.IndexAddr:
			if _, ok := x.X.Type().Underlying().(*types.Pointer); ok {
				v = x.X
			} else {
				return nil
			}
		default:
			return nil
		}
	}
}

func (fg *FuncGen) instrMods(in ssa.Instruction, ms *modSet) {
	switch x := in.(type) {
	case *ssa.Store:
		if a := rootAlloc(x.Addr); a != nil {
			ms.cells[a] = true
			return
		}
		for _, c := range fg.g.storeComps(fg, x.Addr) {
			ms.comps[c] = true
		}
	case *ssa.MapUpdate:
		m := x.Map.Type().Underlying().(*types.Map)
		d, v := fg.mapComps(m)
		ms.comps[d.Name] = true
		ms.comps[v.Name] = true
	case *ssa.Alloc:
		ms.ghosts["$alloc"] = true
		if !x.Heap {
			ms.cells[x] = true
		} else {
			for _, c := range fg.g.allocComps(fg, x.Type().(*types.Pointer).Elem()) {
				ms.comps[c] = true
			}
		}
	case *ssa.MakeSlice:
		ms.ghosts["$alloc"] = true
		ms.comps[fg.elemComp(x.Type().Underlying().(*types.Slice).Elem()).Name] = true
	case *ssa.MakeMap:
		ms.ghosts["$alloc"] = true
		d, v := fg.mapComps(x.Type().Underlying().(*types.Map))
		ms.comps[d.Name] = true
		ms.comps[v.Name] = true
	case *ssa.MakeClosure, *ssa.MakeInterface, *ssa.Convert:
		ms.ghosts["$alloc"] = true
	case *ssa.Next:
		if r, ok := x.Iter.(*ssa.Range); ok {
			ms.ghosts[fg.iterCell(r)] = true
		}
	case *ssa.Defer:
		ms.all = true // defers inside loops are out of subset
	case ssa.CallInstruction:
		fg.callMods(x.Common(), ms)
		ms.ghosts["$alloc"] = true
		if _, isB := x.Common().Value.(*ssa.Builtin); !isB {
			cl := fg.resolveCallee(x.Common())
			if fg.g.traced[cl.name] {
				ms.ghosts["$seq"] = true
				for k := range fg.ghostSort {
					for _, p := range []string{"$calls:", "$callarg:", "$callseq:", "$callres:", "$callobs:", "$callfn:", "$cw:", "$cw2:"} {
						if k == p+cl.name || strings.HasPrefix(k, p+cl.name+":") {
							ms.ghosts[k] = true
						}
					}
				}
			}
		}
	}
}

func (fg *FuncGen) iterCell(r *ssa.Range) string {
	if n, ok := fg.iterCells[r]; ok {
		return n
	}
	n := fmt.Sprintf("$iter:%s", r.Name())
	fg.iterCells[r] = n
	return n
}

// ---- driver ---------------------------------------------------------------------------

func (fg *FuncGen) run() {
	fn := fg.fn
	if len(fn.Blocks) == 0 {
		return
	}
	fg.findLoops()
	e := fg.enc
	// entry state
	st := newState()
	fg.cur = st
	fg.reach = "true"
	fg.block = fn.Blocks[0]
	fg.ghostSort["$alloc"] = "Int"
	fg.assume(fmt.Sprintf("(> %s 0)", fg.allocTerm(st)))
	fg.ghostSort["$seq"] = "Int"
	fg.ghostInits["$seq"] = "0"
	fg.preregisterTraces()
	for _, p := range fn.Params {
		name := e.declConst("p_"+p.Name(), e.sortOf(p.Type()))
		v := Val{T: name, Typ: p.Type()}
		fg.vals[p] = v
		fg.typeFacts(name, p.Type())
		fg.paramVals[p.Name()] = v
		for o, c := range fg.g.renamesOf(fn) {
			if c == p.Name() {
				fg.paramVals[o] = v // the contract still uses the name the parameter had on the pinned tree
				fg.note("parameter %s of %s was called %s when the contracts were written: bound by position", c, funcDisplayName(fn), o)
			}
		}
	}
	fg.entry = st.clone()

	// requires
	if fg.ct != nil {
		env := fg.ownEnv(fg.entry, fg.entry)
		for _, r := range fg.ct.Requires {
			t := fg.trBool(r.Expr, env)
			fg.assume(t)
		}
		if ict, names := fg.implemented(); ict != nil {
			ienv := fg.implEnv(fg.entry, fg.entry, names)
			if p := fg.g.pkgByPath(ict.Pkg); p != nil {
				ienv.pkg = p
			}
			for _, r := range ict.Requires {
				fg.assume(fg.trBool(r.Expr, ienv))
			}
		}
		for _, r := range fg.ct.EntryAssumes {
			fg.assume(fg.trBool(r.Expr, env))
			fg.note("ASSUMED at entry of %s (unchecked): %s", funcDisplayName(fn), r.Text)
		}
		fg.checkedClauses()
		// vacuity: the preconditions (with type facts) must be satisfiable
		if len(fg.ct.Requires) > 0 || len(fg.ct.EntryAssumes) > 0 {
			o := &Obligation{Name: fg.oblName("vacuity", "requires satisfiable"), Kind: "vacuity", Func: funcDisplayName(fn), Props: fg.props,
				Prefix: len(fg.asserts), Goal: "true", ExpectSat: true}
			fg.obls = append(fg.obls, o)
		}
	}
	fg.assumeStructInvsAtEntry()

	fg.walk(fn, "")
	fg.finishReturns()
}

// walk executes the blocks of fn (loops cut at their headers) starting in fg.cur / fg.reach.
// prefix distinguishes the reachability constants of inlined closures.
func (fg *FuncGen) walk(fn *ssa.Function, prefix string) {
	e := fg.enc
	entryReach := fg.reach
	// topological order ignoring back edges
	order := fg.topoOf(fn)
	if prefix == "" {
		for i, b := range order {
			fg.blockOrder[b] = i
		}
	}
	out := map[*ssa.BasicBlock]*State{}
	edgeCond := map[[2]*ssa.BasicBlock]string{}

	for _, b := range order {
		fg.block = b
		var st *State
		var reach string
		if b == fn.Blocks[0] {
			st = fg.cur
			reach = entryReach
		} else {
			var edges []inEdge
			for _, p := range b.Preds {
				if b.Dominates(p) && fg.loops[b] != nil {
					continue // back edge
				}
				ps, ok := out[p]
				if !ok {
					continue // unreachable predecessor (e.g. recover block)
				}
				c := edgeCond[[2]*ssa.BasicBlock{p, b}]
				edges = append(edges, inEdge{cond: c, st: ps})
			}
			if len(edges) == 0 {
				continue
			}
			var conds []string
			for _, ed := range edges {
				conds = append(conds, ed.cond)
			}
			rname := e.declConst(fmt.Sprintf("reach_%s%d", prefix, b.Index), "Bool")
			fg.assume(fmt.Sprintf("(= %s %s)", rname, or(conds...)))
			reach = rname
			fg.reach = reach
			// phis need the per-edge values: handle before merging states
			st = fg.merge(edges)
			fg.cur = st
			for _, in := range b.Instrs {
				phi, ok := in.(*ssa.Phi)
				if !ok {
					break
				}
				nv := fg.freshValNoFacts("phi_"+phi.Name(), phi.Type())
				k := 0
				for i, p := range b.Preds {
					if b.Dominates(p) && fg.loops[b] != nil {
						continue
					}
					if _, ok := out[p]; !ok {
						continue
					}
					fg.assume(implies(edges[k].cond, fmt.Sprintf("(= %s %s)", nv.T, fg.term(phi.Edges[i]))))
					k++
				}
				fg.vals[phi] = nv
			}
		}
		fg.cur = st
		fg.reach = reach
		if li := fg.loops[b]; li != nil {
			fg.loopHead(li)
		}
		fg.nilChecked = map[string]bool{}
		for _, in := range b.Instrs {
			if p := in.Pos(); p.IsValid() {
				fg.lastPos = p
			}
			fg.exec(in)
		}
		// terminator: edge conditions
		out[b] = fg.cur
		if len(b.Instrs) > 0 {
			switch t := b.Instrs[len(b.Instrs)-1].(type) {
			case *ssa.If:
				c := fg.term(t.Cond)
				edgeCond[[2]*ssa.BasicBlock{b, b.Succs[0]}] = fg.namedBool("edge", and(fg.reach, c))
				edgeCond[[2]*ssa.BasicBlock{b, b.Succs[1]}] = fg.namedBool("edge", and(fg.reach, not(c)))
			case *ssa.Jump:
				edgeCond[[2]*ssa.BasicBlock{b, b.Succs[0]}] = fg.reach
			}
		}
		// back edges: invariant preservation
		for _, s := range b.Succs {
			if li := fg.loops[s]; li != nil && s.Dominates(b) {
				fg.loopBack(li, edgeCond[[2]*ssa.BasicBlock{b, s}])
			}
		}
	}
}

// inlineClosure symbolically executes the body of an anonymous function at its call site
// (used for `defer func() {...}()` and direct calls of function literals).  Only loop-free,
// defer-free closures are inlined; anything else is treated as an unknown call.
func (fg *FuncGen) inlineClosure(mc *ssa.MakeClosure, args []Val, guard string) (Val, bool) {
	fn, ok := mc.Fn.(*ssa.Function)
	if !ok {
		return Val{}, false
	}
	return fg.inlineBody(fn, mc.Bindings, args, guard)
}

// inlineBody: see inlineClosure; also used for a module function that is new with respect to
// the pinned tree (a helper extracted by a refactoring has no contract to be called by).
func (fg *FuncGen) inlineBody(fn *ssa.Function, bindings []ssa.Value, args []Val, guard string) (Val, bool) {
	if len(fn.Blocks) == 0 || fg.inlineDepth > 2 {
		return Val{}, false
	}
	for _, b := range fn.Blocks {
		for _, s := range b.Succs {
			if s.Dominates(b) {
				return Val{}, false // loop
			}
		}
		for _, in := range b.Instrs {
			switch in.(type) {
			case *ssa.Defer, *ssa.Go, *ssa.Select:
				return Val{}, false
			}
		}
	}
	for i, fv := range fn.FreeVars {
		if i < len(bindings) {
			fg.vals[fv] = fg.val(bindings[i])
		}
	}
	for i, p := range fn.Params {
		if i < len(args) {
			fg.vals[p] = args[i]
		}
	}
	if os.Getenv("PLVC_DEBUG") != "" {
		fmt.Fprintf(os.Stderr, "inline %s depth %d in block %d of %s\n", fn.Name(), fg.inlineDepth, fg.block.Index, fg.block.Parent().Name())
	}
	fg.inlineDepth++
	fg.inlineSeq++
	saveRet, saveReach, saveBlock, savePre := fg.returns, fg.reach, fg.block, fg.cur.clone()
	fg.returns = nil
	if guard != "true" {
		fg.reach = fg.namedBool("dg", and(fg.reach, guard))
	}
	fg.walk(fn, fmt.Sprintf("c%d_", fg.inlineSeq))
	rets := fg.returns
	fg.returns = saveRet
	fg.inlineDepth--
	fg.block = saveBlock
	var edges []inEdge
	for _, r := range rets {
		edges = append(edges, inEdge{cond: r.cond, st: r.st})
	}
	if guard != "true" {
		edges = append(edges, inEdge{cond: fg.namedBool("ndg", and(saveReach, not(guard))), st: savePre})
	}
	if len(edges) == 0 {
		fg.cur = savePre
		fg.reach = saveReach
		return Val{Typ: fn.Signature.Results()}, true
	}
	fg.reach = saveReach
	fg.cur = fg.merge(edges)
	var rv Val
	rt := fn.Signature.Results()
	if rt.Len() == 0 {
		rv = Val{Typ: rt}
	} else {
		var res []Val
		for i := 0; i < rt.Len(); i++ {
			v := fg.freshValNoFacts(fmt.Sprintf("cret%d", i), rt.At(i).Type())
			for _, r := range rets {
				if i < len(r.results) {
					fg.assume(implies(r.cond, fmt.Sprintf("(= %s %s)", v.T, r.results[i].T)))
				}
			}
			res = append(res, v)
		}
		if rt.Len() == 1 {
			rv = res[0]
		} else {
			rv = Val{Typ: rt, Tup: res}
		}
	}
	if fn.Parent() != nil {
		fg.note("closure %s executed inline at its call site", fn.Name())
	} else {
		fg.note("function %s has no contract and did not exist when the baseline was written: executed inline at its call site", funcDisplayName(fn))
	}
	return rv, true
}

func (fg *FuncGen) namedBool(prefix, term string) string {
	if !strings.Contains(term, " ") {
		return term
	}
	n := fg.enc.declConst(fg.enc.freshName(prefix), "Bool")
	fg.assume(fmt.Sprintf("(= %s %s)", n, term))
	return n
}

func (fg *FuncGen) freshValNoFacts(prefix string, t types.Type) Val {
	name := fg.enc.freshName(prefix)
	return Val{T: fg.enc.declConst(name, fg.enc.sortOf(t)), Typ: t}
}

func (fg *FuncGen) topo() []*ssa.BasicBlock { return fg.topoOf(fg.fn) }

func (fg *FuncGen) topoOf(fn *ssa.Function) []*ssa.BasicBlock {
	seen := map[*ssa.BasicBlock]bool{}
	var post []*ssa.BasicBlock
	var dfs func(b *ssa.BasicBlock)
	dfs = func(b *ssa.BasicBlock) {
		seen[b] = true
		for _, s := range b.Succs {
			if s.Dominates(b) && fg.loops[s] != nil {
				continue
			}
			if !seen[s] {
				dfs(s)
			}
		}
		post = append(post, b)
	}
	dfs(fn.Blocks[0])
	for i, j := 0, len(post)-1; i < j; i, j = i+1, j-1 {
		post[i], post[j] = post[j], post[i]
	}
	return post
}

// loopHead: at a loop header, check the invariant on entry, havoc what the loop
// modifies, assume the invariant.
func (fg *FuncGen) loopHead(li *loopInfo) {
	ms := fg.loopMods(li)
	entrySt := fg.cur
	li.entrySt = entrySt.clone()
	label := fmt.Sprintf("loop %d", li.ordinal)
	var invs []*Clause
	if li.spec != nil {
		invs = li.spec.Invariants
	}
	for _, inv := range invs {
		env := fg.loopEnv(li, entrySt)
		t := fg.trBool(inv.Expr, env)
		fg.oblige("inv-entry", label+": "+inv.Text, t, inv.Props, inv.Text)
	}
	// the function's frame condition is an implicit invariant of every loop
	var frameComps []string
	for c := range ms.comps {
		frameComps = append(frameComps, c)
	}
	sort.Strings(frameComps)
	if ms.all {
		frameComps = nil
	}
	for _, c := range frameComps {
		if f := fg.frameFormula(entrySt, c); f != "" {
			fg.oblige("inv-entry", label+": frame of "+c, f, nil, "modifies")
		}
	}
	li.frameComps = frameComps
	// the hidden index of a range-over-slice loop never drops below -1
	for _, in := range li.header.Instrs {
		if ld, ok := in.(*ssa.UnOp); ok && ld.Op == token.MUL {
			if a, ok := ld.X.(*ssa.Alloc); ok && a.Comment == "rangeindex" && !a.Heap {
				li.rangeIdx = a
				// upper bound: the length the header compares against (computed before the loop)
				for _, in2 := range li.header.Instrs {
					if cmp, ok := in2.(*ssa.BinOp); ok && cmp.Op == token.LSS {
						if _, isLen := cmp.Y.(*ssa.Call); isLen || true {
							if cmp.Y.Parent() == fg.fn && !li.blocks[blockOf(cmp.Y)] {
								li.rangeLen = fg.term(cmp.Y)
							}
						}
					}
				}
				fg.oblige("inv-entry", label+": -1 <= rangeindex < len (implicit)", fg.rangeInv(li, entrySt), nil, "implicit")
			}
		}
	}
	// havoc
	st := entrySt.clone()
	if ms.all {
		fg.havocAll(st)
	}
	var cs []*ssa.Alloc
	for a := range ms.cells {
		cs = append(cs, a)
	}
	sort.Slice(cs, func(i, j int) bool { return cs[i].Name() < cs[j].Name() })
	fg.cur = st
	// the allocation counter first: everything havocked below may refer to objects allocated by
	// earlier iterations, i.e. anything below the counter's value at the head
	if ms.ghosts["$alloc"] {
		fg.bumpAlloc(st)
	}
	for _, a := range cs {
		if _, ok := st.cells[a]; !ok {
			continue // declared inside the loop
		}
		t := a.Type().(*types.Pointer).Elem()
		v := fg.freshVal("L_"+a.Comment, t)
		st.cells[a] = v.T
	}
	var cn []string
	for c := range ms.comps {
		cn = append(cn, c)
	}
	sort.Strings(cn)
	for _, c := range cn {
		fg.havocComp(st, fg.comps[c])
	}
	for _, gname := range sortedKeys(ms.ghosts) {
		srt, ok := fg.ghostSort[gname]
		if !ok {
			continue
		}
		if gname == "$alloc" {
			continue // done first
		}
		st.ghost[gname] = fg.enc.declConst(fg.enc.freshName(gname), srt)
		if gname == "$seq" || strings.HasPrefix(gname, "$calls:") || strings.HasPrefix(gname, "$iter:") {
			if srt == "Int" {
				fg.assume(fmt.Sprintf("(>= %s 0)", st.ghost[gname]))
			}
		}
	}
	// engine fact, true by construction: every recorded call happened before now
	if sq, ok := st.ghost["$seq"]; ok {
		for _, gname := range sortedKeys(ms.ghosts) {
			if !strings.HasPrefix(gname, "$callseq:") {
				continue
			}
			n := strings.TrimPrefix(gname, "$callseq:")
			cs, ok1 := st.ghost[gname]
			nc, ok2 := st.ghost["$calls:"+n]
			if ok1 && ok2 {
				fg.assume(fmt.Sprintf("(forall ((sq$k Int)) (! (=> (and (<= 0 sq$k) (< sq$k %s)) (and (<= 0 (select %s sq$k)) (< (select %s sq$k) %s))) :pattern ((select %s sq$k))))", nc, cs, cs, sq, cs))
			}
		}
	}
	fg.cur = st
	li.headSt = st.clone()
	li.headReach = fg.reach
	for _, inv := range invs {
		env := fg.loopEnv(li, st)
		fg.assumeHere(fg.trBool(inv.Expr, env))
	}
	for _, c := range frameComps {
		if f := fg.frameFormula(st, c); f != "" {
			fg.assumeHere(f)
		}
	}
	if li.rangeIdx != nil {
		fg.assumeHere(fg.rangeInv(li, st))
	}
	if li.spec != nil && li.spec.Decreases != nil {
		env := fg.loopEnv(li, st)
		v := fg.tr(li.spec.Decreases.Expr, env, types.Typ[types.Int])
		li.decTerm = fg.named("variant", fg.enc.INT(), v.T)
	}
	if len(invs) > 0 {
		// vacuity: loop head reachable with the invariant assumed
		o := &Obligation{Name: fg.oblName("vacuity", label+" head reachable"), Kind: "vacuity", Func: funcDisplayName(fg.fn), Props: fg.props,
			Prefix: len(fg.asserts), Goal: fg.reach, ExpectSat: true}
		fg.obls = append(fg.obls, o)
	}
}

func (fg *FuncGen) loopBack(li *loopInfo, cond string) {
	label := fmt.Sprintf("loop %d", li.ordinal)
	saveReach := fg.reach
	fg.reach = cond
	defer func() { fg.reach = saveReach }()
	for _, c := range li.frameComps {
		if f := fg.frameFormula(fg.cur, c); f != "" {
			fg.oblige("inv-preserve", label+": frame of "+c, f, nil, "modifies")
		}
	}
	if li.rangeIdx != nil {
		fg.oblige("inv-preserve", label+": -1 <= rangeindex < len (implicit)", fg.rangeInv(li, fg.cur), nil, "implicit")
	}
	if li.spec == nil {
		return
	}
	for _, inv := range li.spec.Invariants {
		env := fg.loopEnv(li, fg.cur)
		t := fg.trBool(inv.Expr, env)
		fg.oblige("inv-preserve", label+": "+inv.Text, t, inv.Props, inv.Text)
	}
	if li.spec.Decreases != nil {
		env := fg.loopEnv(li, fg.cur)
		v := fg.tr(li.spec.Decreases.Expr, env, types.Typ[types.Int])
		e := fg.enc
		goal := and(e.iop("<=", e.ilit(0), li.decTerm, true), e.iop("<", v.T, li.decTerm, true))
		fg.oblige("variant", label+": "+li.spec.Decreases.Text, goal, li.spec.Decreases.Props, li.spec.Decreases.Text)
	}
	fg.reach = saveReach
}

// srcOr: source text at pos, or a description derived from the innermost enclosing loop
// (go/ssa gives no position to the implicit element access of a range loop).
func (fg *FuncGen) srcOr(pos token.Pos, want string) string {
	if t := fg.g.srcText(pos, want); t != "" {
		return t
	}
	var best *loopInfo
	for _, li := range fg.loops {
		if li.blocks[fg.block] && (best == nil || len(li.blocks) < len(best.blocks)) {
			best = li
		}
	}
	if best != nil && best.text != "" {
		return best.text + " (implicit)"
	}
	return "(implicit)"
}

func blockOf(v ssa.Value) *ssa.BasicBlock {
	if in, ok := v.(ssa.Instruction); ok {
		return in.Block()
	}
	return nil
}

// rangeInv: -1 <= rangeindex, and rangeindex < len when the loop has not yet run off the end
// (at the head, before the increment, the index of the last completed iteration is < len, or
// the slice is empty and the index is -1).
func (fg *FuncGen) rangeInv(li *loopInfo, st *State) string {
	e := fg.enc
	ri := fg.cellGet(st, li.rangeIdx)
	lo := e.iop("<=", e.ilit(-1), ri, true)
	if li.rangeLen == "" {
		return lo
	}
	return and(lo, or(e.iop("<", ri, li.rangeLen, true), fmt.Sprintf("(= %s %s)", ri, e.ilit(-1))))
}

// preregisterTraces declares the ghost trace cells of every traced callee this function
// calls, so that loops havoc them from their first visit on.
func (fg *FuncGen) preregisterTraces() {
	for _, b := range fg.fn.Blocks {
		for _, in := range b.Instrs {
			ci, ok := in.(ssa.CallInstruction)
			if !ok {
				continue
			}
			c := ci.Common()
			if _, isB := c.Value.(*ssa.Builtin); isB {
				continue
			}
			cl := fg.resolveCallee(c)
			if !fg.g.traced[cl.name] {
				continue
			}
			fg.ghostSort["$calls:"+cl.name] = "Int"
			fg.ghostInits["$calls:"+cl.name] = "0"
			fg.ghostSort["$callseq:"+cl.name] = "(Array Int Int)"
			if !c.IsInvoke() && c.StaticCallee() == nil {
				fg.ghostSort["$callfn:"+cl.name] = "(Array Int Int)"
			}
			fg.ghostInits["$callseq:"+cl.name] = "((as const (Array Int Int)) 0)"
			var ats []types.Type
			if c.IsInvoke() || c.StaticCallee() == nil {
				ats = append(ats, c.Value.Type())
			}
			for _, a := range c.Args {
				ats = append(ats, a.Type())
			}
			for j, t := range ats {
				fg.ghostSort[fmt.Sprintf("$callarg:%s:%d", cl.name, j)] = fmt.Sprintf("(Array Int %s)", fg.enc.sortOf(t))
				// calledwith(F, j, v) / calledwith(F, i, v, j, w): the set of values (pairs of values) some call passed
				if !fg.g.cwUsed[cl.name] {
					continue
				}
				cw := fmt.Sprintf("$cw:%s:%d", cl.name, j)
				fg.ghostSort[cw] = fmt.Sprintf("(Array %s Bool)", fg.enc.sortOf(t))
				fg.ghostInits[cw] = fmt.Sprintf("((as const (Array %s Bool)) false)", fg.enc.sortOf(t))
				for j2, t2 := range ats {
					if j2 > j {
						cw2 := fmt.Sprintf("$cw2:%s:%d:%d", cl.name, j, j2)
						fg.ghostSort[cw2] = fmt.Sprintf("(Array %s (Array %s Bool))", fg.enc.sortOf(t), fg.enc.sortOf(t2))
						fg.ghostInits[cw2] = fmt.Sprintf("((as const (Array %s (Array %s Bool))) ((as const (Array %s Bool)) false))", fg.enc.sortOf(t), fg.enc.sortOf(t2), fg.enc.sortOf(t2))
					}
				}
			}
			if cl.ct != nil {
				for _, ob := range cl.ct.Observes {
					pk := fg.fn.Pkg.Pkg
					if p := fg.g.pkgByPath(ob.Pkg); p != nil {
						pk = p
					}
					if t := fg.g.resolveType(ob.Type, pk); t != nil {
						fg.ghostSort[fmt.Sprintf("$callobs:%s:%s", cl.name, ob.Name)] = fmt.Sprintf("(Array Int %s)", fg.enc.sortOf(t))
					}
				}
			}
			rs := cl.sig.Results()
			for i := 0; i < rs.Len(); i++ {
				fg.ghostSort[fmt.Sprintf("$callres:%s:%d", cl.name, i)] = fmt.Sprintf("(Array Int %s)", fg.enc.sortOf(rs.At(i).Type()))
			}
		}
	}
}

// checkedClauses: facts a run-time builtin relies on because its load-time checker accepted
// the call (`//@ pairs XChecking`, `//@ checked <fact>`).  Each fact is proved as a lemma from
// the checker's postconditions (evaluated on the same node, in the same state: the tree is not
// modified between load and run, see the write-set property) and then assumed.
func (fg *FuncGen) checkedClauses() {
	ct := fg.ct
	if ct == nil || len(ct.Checked) == 0 {
		return
	}
	var ante []string
	if ct.Pairs == "" {
		fg.g.bindErrors = append(fg.g.bindErrors, ct.Key+": checked clauses without `pairs`")
	} else {
		chk := fg.g.cs.ByKey["func "+ct.Pkg+" "+ct.Pairs]
		if chk == nil {
			fg.g.bindErrors = append(fg.g.bindErrors, ct.Key+": pairs "+ct.Pairs+": no such contract")
		} else {
			_, names := fg.g.contractSig(chk)
			env := fg.implEnv(fg.entry, fg.entry, names)
			env.results = []Val{{T: "0", Typ: fg.fn.Signature.Results().At(0).Type()}}
			for _, en := range chk.Ensures {
				if fg.g.mentionsTrace(en.Expr) {
					continue
				}
				fg.clausePkg(env, en)
				ante = append(ante, fg.trBool(en.Expr, env))
			}
		}
	}
	env := fg.ownEnv(fg.entry, fg.entry)
	for _, cl := range ct.Checked {
		t := fg.trBool(cl.Expr, env)
		if ct.Pairs != "" {
			fg.obligeAt("lemma", "accepted by "+ct.Pairs+" implies "+cl.Text, "true", implies(and(ante...), t), cl.Props, cl.Text)
			fg.assume(t)
		} else {
			fg.assume(t)
		}
	}
}

// ownAlloc: an object allocated by the function under verification (it may be under
// construction, so its invariant is not assumed); typ is the static pointer type.
type ownAlloc struct {
	T   string
	typ types.Type
}

// ownGuards: v is none of this function's own allocations of the same type (objects of
// different types never alias).
func (fg *FuncGen) ownGuards(v Val) []string {
	var own []string
	for _, r := range fg.ownAllocs {
		if v.Typ != nil && r.typ != nil && !types.Identical(v.Typ, r.typ) {
			continue
		}
		own = append(own, fmt.Sprintf("(not (= %s %s))", v.T, r.T))
	}
	return own
}
