package main

// Translation of contract expressions to SMT terms.

import (
	"fmt"
	"go/constant"
	"go/token"
	"go/types"
	"math/big"
	"strconv"
	"strings"

	"golang.org/x/tools/go/ssa"
)

type bigInt = big.Int

var bigOne = big.NewInt(1)
var bigZero = big.NewInt(0)

func bigFrom(v int64) *big.Int { return big.NewInt(v) }

type SpecEnv struct {
	st, old  *State
	vars     map[string]Val
	pkg      *types.Package
	fn       *ssa.Function
	scopePos token.Pos
	results  []Val
	loop     *loopInfo
	preAlloc string // $alloc at the start of the call (for fresh())
	what     string
	quant    bool // inside a quantifier body (terms may mention bound variables)
}

func (fg *FuncGen) ownEnv(st, old *State) *SpecEnv {
	env := &SpecEnv{st: st, old: old, vars: map[string]Val{}, pkg: fg.fn.Pkg.Pkg, what: "contract of " + fg.fn.Name()}
	for k, v := range fg.paramVals {
		env.vars[k] = v
	}
	env.preAlloc = fg.allocTerm(fg.entry)
	return env
}

func (fg *FuncGen) loopEnv(li *loopInfo, st *State) *SpecEnv {
	env := &SpecEnv{st: st, old: fg.entry, vars: map[string]Val{}, pkg: fg.fn.Pkg.Pkg, fn: fg.fn, scopePos: li.scopePos, loop: li,
		what: fmt.Sprintf("loop %d of %s", li.ordinal, fg.fn.Name())}
	env.preAlloc = fg.allocTerm(fg.entry)
	return env
}

func (env *SpecEnv) with(name string, v Val) *SpecEnv {
	n := *env
	n.vars = map[string]Val{}
	for k, x := range env.vars {
		n.vars[k] = x
	}
	n.vars[name] = v
	return &n
}

type specError struct{ msg string }

func (fg *FuncGen) specFail(env *SpecEnv, format string, a ...any) {
	panic(specError{fmt.Sprintf("%s: %s", env.what, fmt.Sprintf(format, a...))})
}

func (fg *FuncGen) trBool(e SExpr, env *SpecEnv) (res string) {
	defer func() {
		if r := recover(); r != nil {
			if se, ok := r.(specError); ok {
				fg.g.bindErrors = append(fg.g.bindErrors, se.msg+" in `"+e.String()+"`")
				fg.taint("contract error: %s", se.msg)
				res = fg.enc.declConst(fg.enc.freshName("specerr"), "Bool")
				return
			}
			panic(r)
		}
	}()
	if e == nil {
		return "true"
	}
	v := fg.tr(e, env, types.Typ[types.Bool])
	if !isBool(v.Typ) {
		fg.specFail(env, "expression is not boolean: %s", e)
	}
	return v.T
}

var untypedInt = types.Typ[types.UntypedInt]

func isUntyped(t types.Type) bool {
	b, ok := t.(*types.Basic)
	return ok && b.Info()&types.IsUntyped != 0
}

// coerce makes two operand values agree on a type (untyped literals adopt the other side).
func (fg *FuncGen) trPair(l, r SExpr, env *SpecEnv, hint types.Type) (Val, Val) {
	_, lLit := l.(*SLit)
	if un, ok := l.(*SUn); ok {
		_, lLit = un.X.(*SLit)
	}
	if lLit {
		b := fg.tr(r, env, hint)
		a := fg.tr(l, env, b.Typ)
		return a, b
	}
	a := fg.tr(l, env, hint)
	b := fg.tr(r, env, a.Typ)
	return a, b
}

func (fg *FuncGen) tr(e SExpr, env *SpecEnv, hint types.Type) Val {
	enc := fg.enc
	switch x := e.(type) {
	case *SLit:
		switch x.Kind {
		case token.INT, token.CHAR:
			var bi *big.Int
			if x.Kind == token.CHAR {
				s, err := strconv.Unquote(x.Val)
				if err != nil {
					fg.specFail(env, "bad char %s", x.Val)
				}
				bi = big.NewInt(int64([]rune(s)[0]))
			} else {
				bi, _ = new(big.Int).SetString(x.Val, 0)
			}
			if hint != nil && isFloat(hint) {
				f, _ := new(big.Float).SetInt(bi).Float64()
				return Val{T: floatLit(f, 64), Typ: hint}
			}
			if hint != nil && isGhostInt(hint) {
				s := bi.String()
				if bi.Sign() < 0 {
					s = "(- " + new(big.Int).Neg(bi).String() + ")"
				}
				return Val{T: s, Typ: ghostInt}
			}
			t := types.Type(types.Typ[types.Int])
			if hint != nil && isInt(hint) {
				t = hint
			}
			bits, _, _ := intInfo(t)
			return Val{T: enc.intLit(bi, bits), Typ: t}
		case token.FLOAT:
			f, _ := strconv.ParseFloat(x.Val, 64)
			return Val{T: floatLit(f, 64), Typ: types.Typ[types.Float64]}
		case token.STRING:
			s, err := strconv.Unquote(x.Val)
			if err != nil {
				fg.specFail(env, "bad string %s", x.Val)
			}
			t := types.Type(types.Typ[types.String])
			if hint != nil && isString(hint) {
				t = hint
			}
			return Val{T: enc.strConst(s), Typ: t}
		}
	case *SIdent:
		return fg.trIdent(x.Name, env, hint)
	case *SUn:
		switch x.Op {
		case "!":
			v := fg.tr(x.X, env, types.Typ[types.Bool])
			return Val{T: not(v.T), Typ: v.Typ}
		case "-":
			v := fg.tr(x.X, env, hint)
			if isFloat(v.Typ) {
				return Val{T: fmt.Sprintf("(fp.neg %s)", v.T), Typ: v.Typ}
			}
			if enc.bv {
				return Val{T: fmt.Sprintf("(bvneg %s)", v.T), Typ: v.Typ}
			}
			return Val{T: fmt.Sprintf("(- %s)", v.T), Typ: v.Typ}
		}
	case *SCond:
		c := fg.tr(x.C, env, types.Typ[types.Bool])
		a, b := fg.trPair(x.A, x.B, env, hint)
		return Val{T: ite(c.T, a.T, b.T), Typ: a.Typ}
	case *SBin:
		return fg.trBin(x, env, hint)
	case *SQuant:
		return fg.trQuant(x, env)
	case *SSel:
		return fg.trSel(x, env, hint)
	case *SIndex:
		return fg.trIndex(x, env)
	case *SSlice:
		xv := fg.tr(x.X, env, nil)
		z := enc.ilit(0)
		lo, hi := z, ""
		if x.Lo != nil {
			lo = fg.toInt(fg.tr(x.Lo, env, types.Typ[types.Int]).T, types.Typ[types.Int])
		}
		if isString(xv.Typ) {
			hi = "(slen " + xv.T + ")"
			if x.Hi != nil {
				hi = fg.tr(x.Hi, env, types.Typ[types.Int]).T
			}
			return Val{T: fg.substr(xv.T, lo, hi), Typ: xv.Typ}
		}
		if isSlice(xv.Typ) {
			hi = "(sllen " + xv.T + ")"
			if x.Hi != nil {
				hi = fg.tr(x.Hi, env, types.Typ[types.Int]).T
			}
			return Val{T: fmt.Sprintf("(mkslice (sbase %s) %s %s %s)", xv.T, enc.iop("+", "(soff "+xv.T+")", lo, true), enc.iop("-", hi, lo, true), enc.iop("-", "(slcap "+xv.T+")", lo, true)), Typ: xv.Typ}
		}
		fg.specFail(env, "cannot slice %s", xv.Typ)
	case *SAssert:
		xv := fg.tr(x.X, env, nil)
		t := fg.g.resolveType(x.Type, env.pkg)
		if t == nil {
			fg.specFail(env, "unknown type %s", x.Type)
		}
		_, val := fg.unbox(xv.T, t)
		return Val{T: val, Typ: t}
	case *SCall:
		return fg.trCall(x, env, hint)
	case *SType:
		fg.specFail(env, "type %s used as a value", x.Text)
	}
	fg.specFail(env, "unsupported expression %s", e)
	return Val{}
}

func (fg *FuncGen) trIdent(name string, env *SpecEnv, hint types.Type) Val {
	enc := fg.enc
	if v, ok := env.vars[name]; ok {
		return v
	}
	switch name {
	case "true":
		return Val{T: "true", Typ: types.Typ[types.Bool]}
	case "false":
		return Val{T: "false", Typ: types.Typ[types.Bool]}
	case "nil":
		if hint != nil {
			return Val{T: enc.zero(hint), Typ: hint}
		}
		return Val{T: "0", Typ: types.Typ[types.UntypedNil]}
	case "result":
		if len(env.results) == 1 {
			return env.results[0]
		}
		// inside a loop invariant a local variable may itself be called `result`
		if env.loop == nil || len(env.results) > 0 {
			fg.specFail(env, "`result` needs exactly one result (use result0, result1...)")
		}
	}
	if strings.HasPrefix(name, "result") && name != "result" {
		if i, err := strconv.Atoi(name[6:]); err == nil {
			if i < len(env.results) {
				return env.results[i]
			}
			fg.specFail(env, "no result %d", i)
		}
	}
	// the hidden index of a range-over-slice loop
	if name == "rangeindex" && env.loop != nil {
		for _, in := range env.loop.header.Instrs {
			if ld, ok := in.(*ssa.UnOp); ok && ld.Op == token.MUL {
				if a, ok := ld.X.(*ssa.Alloc); ok && a.Comment == "rangeindex" {
					return Val{T: fg.cellGet(env.st, a), Typ: types.Typ[types.Int]}
				}
			}
		}
	}
	// locals of the function under verification
	if env.fn != nil && env.scopePos.IsValid() {
		v, ok := fg.g.lookupLocal(env.fn, env.scopePos, name)
		if !ok {
			if nn, ren := fg.g.renamesOf(env.fn)[name]; ren {
				if v, ok = fg.g.lookupLocal(env.fn, env.scopePos, nn); ok {
					fg.note("local %s of %s was called %s when the contracts were written: bound by type and position", nn, funcDisplayName(env.fn), name)
				}
			}
		}
		if ok {
			if a := fg.allocFor(v); a != nil {
				t := a.Type().(*types.Pointer).Elem()
				if !a.Heap {
					return Val{T: fg.cellGet(env.st, a), Typ: t}
				}
				av := fg.val(a)
				if isStruct(t) {
					return Val{T: fg.loadRef(env.st, av.T, t), Typ: t, Src: av.T}
				}
				return Val{T: fg.loadRef(env.st, av.T, t), Typ: t}
			}
		}
	}
	// package scope
	if obj := env.pkg.Scope().Lookup(name); obj != nil {
		return fg.trObject(obj, env)
	}
	if obj := types.Universe.Lookup(name); obj != nil {
		if c, ok := obj.(*types.Const); ok {
			t, _ := enc.constTerm(c.Val(), c.Type())
			return Val{T: t, Typ: c.Type()}
		}
	}
	fg.specFail(env, "unknown identifier %s", name)
	return Val{}
}

func (fg *FuncGen) trObject(obj types.Object, env *SpecEnv) Val {
	enc := fg.enc
	switch o := obj.(type) {
	case *types.Const:
		t := o.Type()
		if isUntyped(t) {
			t = types.Default(t)
		}
		term, ok := enc.constTerm(o.Val(), t)
		if !ok {
			fg.specFail(env, "constant %s not representable", o.Name())
		}
		return Val{T: term, Typ: t}
	case *types.Func:
		// a package-level function used as a value (compared with a function-typed field)
		for _, sp := range fg.g.prog.AllPackages() {
			if sp.Pkg == o.Pkg() {
				if f, ok := sp.Members[o.Name()].(*ssa.Function); ok {
					return Val{T: fg.funcID(f), Typ: o.Type()}
				}
			}
		}
	case *types.Var:
		// package-level variable
		for _, sp := range fg.g.prog.AllPackages() {
			if sp.Pkg == o.Pkg() {
				if g, ok := sp.Members[o.Name()].(*ssa.Global); ok {
					c := fg.globalComp(g)
					return Val{T: fg.get(env.st, c), Typ: o.Type()}
				}
			}
		}
	}
	fg.specFail(env, "cannot use %s here", obj.Name())
	return Val{}
}

func (fg *FuncGen) allocFor(v *types.Var) *ssa.Alloc {
	for _, b := range fg.fn.Blocks {
		for _, in := range b.Instrs {
			if a, ok := in.(*ssa.Alloc); ok && a.Pos() == v.Pos() {
				return a
			}
		}
	}
	for _, l := range fg.fn.Locals {
		if l.Pos() == v.Pos() {
			return l
		}
	}
	// parameters are spilled to allocs named after them
	for _, b := range fg.fn.Blocks[:1] {
		for _, in := range b.Instrs {
			if a, ok := in.(*ssa.Alloc); ok && a.Comment == v.Name() {
				return a
			}
		}
	}
	return nil
}

func (fg *FuncGen) trBin(x *SBin, env *SpecEnv, hint types.Type) Val {
	enc := fg.enc
	B := types.Typ[types.Bool]
	switch x.Op {
	case "&&", "||", "==>", "<==>":
		a := fg.tr(x.L, env, B)
		b := fg.tr(x.R, env, B)
		if !isBool(a.Typ) || !isBool(b.Typ) {
			fg.specFail(env, "boolean operator on non-boolean: %s", x)
		}
		switch x.Op {
		case "&&":
			return Val{T: and(a.T, b.T), Typ: B}
		case "||":
			return Val{T: or(a.T, b.T), Typ: B}
		case "==>":
			return Val{T: implies(a.T, b.T), Typ: B}
		default:
			return Val{T: fmt.Sprintf("(= %s %s)", a.T, b.T), Typ: B}
		}
	}
	cmp := map[string]bool{"==": true, "!=": true, "<": true, "<=": true, ">": true, ">=": true}[x.Op]
	var a, b Val
	if cmp {
		a, b = fg.trPair(x.L, x.R, env, nil)
	} else {
		a, b = fg.trPair(x.L, x.R, env, hint)
	}
	// nil against a typed value
	if b.Typ == types.Typ[types.UntypedNil] && a.Typ != b.Typ {
		b = Val{T: enc.zero(a.Typ), Typ: a.Typ}
	}
	if a.Typ == types.Typ[types.UntypedNil] && a.Typ != b.Typ {
		a = Val{T: enc.zero(b.Typ), Typ: b.Typ}
	}
	if isGhostInt(a.Typ) || isGhostInt(b.Typ) {
		if !(isGhostInt(a.Typ) && isGhostInt(b.Typ)) {
			fg.specFail(env, "mixing a mathematical integer with a machine integer in %s", x)
		}
		switch x.Op {
		case "==":
			return Val{T: fmt.Sprintf("(= %s %s)", a.T, b.T), Typ: B}
		case "!=":
			return Val{T: fmt.Sprintf("(not (= %s %s))", a.T, b.T), Typ: B}
		case "<", "<=", ">", ">=":
			return Val{T: fmt.Sprintf("(%s %s %s)", x.Op, a.T, b.T), Typ: B}
		case "+", "-", "*":
			return Val{T: fmt.Sprintf("(%s %s %s)", x.Op, a.T, b.T), Typ: ghostInt}
		}
		fg.specFail(env, "operator %s on mathematical integers", x.Op)
	}
	t := a.Typ
	if enc.sortOf(a.Typ) != enc.sortOf(b.Typ) {
		// iface vs concrete: box the concrete side
		if isIface(a.Typ) && !isIface(b.Typ) {
			b = Val{T: fg.box(b.T, b.Typ), Typ: a.Typ}
		} else if isIface(b.Typ) && !isIface(a.Typ) {
			a = Val{T: fg.box(a.T, a.Typ), Typ: b.Typ}
			t = b.Typ
		} else if isInt(a.Typ) && isInt(b.Typ) {
			b = Val{T: fg.convInt(b.T, b.Typ, a.Typ), Typ: a.Typ}
		} else {
			fg.specFail(env, "operands of %s have different sorts: %s vs %s", x.Op, a.Typ, b.Typ)
		}
	}
	if cmp {
		var r string
		switch {
		case x.Op == "==" && isString(t):
			r = enc.strEq(a.T, b.T)
		case x.Op == "!=" && isString(t):
			r = not(enc.strEq(a.T, b.T))
		case isFloat(t):
			m := map[string]string{"<": "fp.lt", "<=": "fp.leq", ">": "fp.gt", ">=": "fp.geq", "==": "fp.eq"}
			if x.Op == "!=" {
				r = fmt.Sprintf("(not (fp.eq %s %s))", a.T, b.T)
			} else {
				r = fmt.Sprintf("(%s %s %s)", m[x.Op], a.T, b.T)
			}
		case x.Op == "==":
			if isSlice(t) && (strings.HasPrefix(b.T, "(mkslice 0 ")) {
				r = fmt.Sprintf("(= (sbase %s) 0)", a.T)
			} else {
				r = fmt.Sprintf("(= %s %s)", a.T, b.T)
			}
		case x.Op == "!=":
			if isSlice(t) && (strings.HasPrefix(b.T, "(mkslice 0 ")) {
				r = fmt.Sprintf("(not (= (sbase %s) 0))", a.T)
			} else {
				r = fmt.Sprintf("(not (= %s %s))", a.T, b.T)
			}
		case isInt(t):
			_, signed, _ := intInfo(t)
			r = enc.iop(x.Op, a.T, b.T, signed)
		default:
			fg.specFail(env, "cannot compare %s with %s", t, x.Op)
		}
		return Val{T: r, Typ: B}
	}
	switch {
	case isString(t) && x.Op == "+":
		return Val{T: fg.strConcat(a.T, b.T), Typ: t}
	case isFloat(t):
		m := map[string]string{"+": "fp.add RNE", "-": "fp.sub RNE", "*": "fp.mul RNE", "/": "fp.div RNE"}
		if f, ok := m[x.Op]; ok {
			return Val{T: fmt.Sprintf("(%s %s %s)", f, a.T, b.T), Typ: t}
		}
	case isInt(t):
		_, signed, _ := intInfo(t)
		return Val{T: enc.iop(x.Op, a.T, b.T, signed), Typ: t}
	}
	fg.specFail(env, "operator %s not supported on %s", x.Op, t)
	return Val{}
}

func (fg *FuncGen) trQuant(x *SQuant, env *SpecEnv) Val {
	enc := fg.enc
	if strings.HasPrefix(x.Type, "in ") && len(x.Vars) == 1 {
		// bounded quantifier over a literal range: expanded
		var lo, hi int
		if _, err := fmt.Sscanf(strings.TrimSpace(x.Type[3:]), "%d..%d", &lo, &hi); err != nil || hi-lo > 64 {
			fg.specFail(env, "bad bounded quantifier range %q", x.Type)
		}
		var parts []string
		for i := lo; i < hi; i++ {
			ne := env.with(x.Vars[0], Val{T: enc.ilit(int64(i)), Typ: types.Typ[types.Int]})
			parts = append(parts, fg.tr(x.Body, ne, types.Typ[types.Bool]).T)
		}
		if x.Forall {
			return Val{T: and(parts...), Typ: types.Typ[types.Bool]}
		}
		return Val{T: or(parts...), Typ: types.Typ[types.Bool]}
	}
	var t types.Type = types.Typ[types.Int]
	if x.Type == "mathint" {
		t = ghostInt
	} else if x.Type != "" {
		t = fg.g.resolveType(x.Type, env.pkg)
		if t == nil {
			fg.specFail(env, "unknown type %s", x.Type)
		}
	}
	srt := enc.sortOf(t)
	ne := env
	var binders []string
	var facts []string
	for _, v := range x.Vars {
		name := enc.freshName("q_" + v)
		ne = ne.with(v, Val{T: q(name), Typ: t})
		ne.quant = true
		binders = append(binders, fmt.Sprintf("(%s %s)", q(name), srt))
		if f := enc.rangeFact(q(name), t); f != "" {
			facts = append(facts, f)
		}
	}
	body := fg.tr(x.Body, ne, types.Typ[types.Bool])
	enc.usesQuant = true
	k := "exists"
	b := body.T
	if x.Forall {
		k = "forall"
		b = implies(and(facts...), b)
	} else {
		b = and(append(facts, b)...)
	}
	return Val{T: fmt.Sprintf("(%s (%s) %s)", k, strings.Join(binders, " "), b), Typ: types.Typ[types.Bool]}
}

func (fg *FuncGen) trSel(x *SSel, env *SpecEnv, hint types.Type) Val {
	// package-qualified name?
	if id, ok := x.X.(*SIdent); ok {
		if _, bound := env.vars[id.Name]; !bound {
			if p := fg.g.importedPkg(env.pkg, id.Name); p != nil {
				if env.fn == nil || !fg.isLocalName(env, id.Name) {
					obj := p.Scope().Lookup(x.Name)
					if obj == nil {
						fg.specFail(env, "%s.%s not found", id.Name, x.Name)
					}
					ne := *env
					ne.pkg = p
					return fg.trObject(obj, &ne)
				}
			}
		}
	}
	xv := fg.tr(x.X, env, nil)
	return fg.fieldOf(xv, x.Name, env)
}

func (fg *FuncGen) isLocalName(env *SpecEnv, name string) bool {
	if env.fn == nil || !env.scopePos.IsValid() {
		return false
	}
	_, ok := fg.g.lookupLocal(env.fn, env.scopePos, name)
	return ok
}

func (fg *FuncGen) fieldOf(xv Val, name string, env *SpecEnv) Val {
	t := xv.Typ
	if xv.Src != "" && isStruct(t) {
		return fg.fieldOf(Val{T: xv.Src, Typ: types.NewPointer(t)}, name, env)
	}
	if p, ok := t.Underlying().(*types.Pointer); ok {
		stT := p.Elem()
		u, ok := stT.Underlying().(*types.Struct)
		if !ok {
			fg.specFail(env, "selector .%s on %s", name, t)
		}
		for i := 0; i < u.NumFields(); i++ {
			if u.Field(i).Name() == name {
				ft := u.Field(i).Type()
				if isStruct(ft) {
					er := fg.embRef(stT, i, xv.T)
					return Val{T: fg.loadRef(env.st, er, ft), Typ: ft, Src: er}
				}
				if isArray(ft) {
					return Val{T: fg.loadRef(env.st, fg.embRef(stT, i, xv.T), ft), Typ: ft}
				}
				term := fmt.Sprintf("(select %s %s)", fg.get(env.st, fg.fieldComp(stT, i)), xv.T)
				fg.specHeapFact(term, ft, env)
				return Val{T: term, Typ: ft}
			}
		}
		if ct := fg.structContract(stT); ct != nil {
			for _, gf := range ct.Ghosts {
				if gf.Name == name {
					c := fg.ghostComp(stT, gf, ct)
					return Val{T: fmt.Sprintf("(select %s %s)", fg.get(env.st, c), xv.T), Typ: c.Typ}
				}
			}
		}
		fg.specFail(env, "no field %s in %s", name, stT)
	}
	if u, ok := t.Underlying().(*types.Struct); ok {
		for i := 0; i < u.NumFields(); i++ {
			if u.Field(i).Name() == name {
				return Val{T: fmt.Sprintf("(%s %s)", fg.enc.structSel(t, i), xv.T), Typ: u.Field(i).Type()}
			}
		}
	}
	fg.specFail(env, "selector .%s on %s", name, t)
	return Val{}
}

func (fg *FuncGen) trIndex(x *SIndex, env *SpecEnv) Val {
	enc := fg.enc
	xv := fg.tr(x.X, env, nil)
	switch u := xv.Typ.Underlying().(type) {
	case *types.Slice:
		i := fg.tr(x.I, env, types.Typ[types.Int])
		idx := enc.at("(soff "+xv.T+")", fg.toInt(i.T, i.Typ), !env.quant)
		term := fmt.Sprintf("(select (select %s (sbase %s)) %s)", fg.get(env.st, fg.elemComp(u.Elem())), xv.T, idx)
		fg.specHeapFact(term, u.Elem(), env)
		return Val{T: term, Typ: u.Elem()}
	case *types.Array:
		i := fg.tr(x.I, env, types.Typ[types.Int])
		return Val{T: fmt.Sprintf("(select %s %s)", xv.T, fg.toInt(i.T, i.Typ)), Typ: u.Elem()}
	case *types.Map:
		k := fg.tr(x.I, env, u.Key())
		_, vc := fg.mapComps(u)
		return Val{T: fmt.Sprintf("(select (select %s %s) %s)", fg.get(env.st, vc), xv.T, k.T), Typ: u.Elem()}
	case *types.Basic:
		if isString(u) {
			i := fg.tr(x.I, env, types.Typ[types.Int])
			return Val{T: fmt.Sprintf("(sbyte %s %s)", xv.T, fg.toInt(i.T, i.Typ)), Typ: types.Typ[types.Uint8]}
		}
	}
	fg.specFail(env, "cannot index %s", xv.Typ)
	return Val{}
}

func (fg *FuncGen) trCall(x *SCall, env *SpecEnv, hint types.Type) Val {
	enc := fg.enc
	B := types.Typ[types.Bool]
	I := types.Typ[types.Int]
	arg := func(i int, h types.Type) Val {
		if i >= len(x.Args) {
			fg.specFail(env, "%s: missing argument %d", x.Fun, i)
		}
		return fg.tr(x.Args[i], env, h)
	}
	switch x.Fun {
	case "old":
		ne := *env
		ne.st = env.old
		if env.fn != nil {
			// inside a loop invariant old(x) of a parameter means its entry value
			if id, ok := x.Args[0].(*SIdent); ok {
				if v, ok := fg.paramVals[id.Name]; ok {
					return v
				}
			}
			ne.fn = nil
			ne.vars = map[string]Val{}
			for k, v := range env.vars {
				ne.vars[k] = v
			}
			for k, v := range fg.paramVals {
				if _, bound := ne.vars[k]; !bound {
					ne.vars[k] = v
				}
			}
		}
		return fg.tr(x.Args[0], &ne, hint)
	case "atentry":
		// atentry(e), in a loop invariant: the value of e in the state in which the loop was entered
		// (before the first iteration); locals assigned before the loop have their values of that moment
		if env.loop == nil || env.loop.entrySt == nil {
			fg.specFail(env, "atentry outside a loop invariant")
		}
		ne := *env
		ne.st = env.loop.entrySt
		return fg.tr(x.Args[0], &ne, hint)
	case "len":
		v := arg(0, nil)
		switch u := v.Typ.Underlying().(type) {
		case *types.Slice:
			return Val{T: "(sllen " + v.T + ")", Typ: I}
		case *types.Basic:
			if isString(u) {
				return Val{T: "(slen " + v.T + ")", Typ: I}
			}
		case *types.Map:
			return Val{T: fg.mapLen(env.st, u, v.T), Typ: I}
		case *types.Array:
			return Val{T: enc.ilit(u.Len()), Typ: I}
		}
		fg.specFail(env, "len of %s", v.Typ)
	case "cap":
		v := arg(0, nil)
		return Val{T: "(slcap " + v.T + ")", Typ: I}
	case "typeis":
		v := arg(0, nil)
		tt, ok := x.Args[1].(*SType)
		var text string
		if ok {
			text = tt.Text
		} else {
			text = x.Args[1].String()
		}
		t := fg.g.resolveType(text, env.pkg)
		if t == nil {
			fg.specFail(env, "unknown type %s", text)
		}
		if !isIface(v.Typ) {
			fg.specFail(env, "typeis on non-interface %s", v.Typ)
		}
		okT, _ := fg.unbox(v.T, t)
		return Val{T: okT, Typ: B}
	case "dom":
		m := arg(0, nil)
		u, ok := m.Typ.Underlying().(*types.Map)
		if !ok {
			fg.specFail(env, "dom of non-map")
		}
		k := arg(1, u.Key())
		d, _ := fg.mapComps(u)
		return Val{T: fmt.Sprintf("(and (not (= %s 0)) (select (select %s %s) %s))", m.T, fg.get(env.st, d), m.T, k.T), Typ: B}
	case "fresh":
		v := arg(0, nil)
		ref := v.T
		if isSlice(v.Typ) {
			ref = "(sbase " + v.T + ")"
		}
		return Val{T: fmt.Sprintf("(>= %s %s)", ref, env.preAlloc), Typ: B}
	case "base":
		v := arg(0, nil)
		return Val{T: "(sbase " + v.T + ")", Typ: types.NewPointer(types.Typ[types.Int])}
	case "iterpos":
		if env.loop == nil {
			fg.specFail(env, "iterpos outside loop")
		}
		for r, cell := range fg.iterCells {
			if isString(r.X.Type()) && fg.rangeInLoop(r, env.loop) {
				return Val{T: fg.ghostGet(env.st, cell, enc.INT(), ""), Typ: I}
			}
		}
		fg.specFail(env, "no string range in this loop")
	case "iterseen":
		if env.loop == nil {
			fg.specFail(env, "iterseen outside loop")
		}
		for r, cell := range fg.iterCells {
			if m, ok := r.X.Type().Underlying().(*types.Map); ok && fg.rangeInLoop(r, env.loop) {
				k := arg(0, m.Key())
				srt := fmt.Sprintf("(Array %s Bool)", enc.sortOf(m.Key()))
				return Val{T: fmt.Sprintf("(select %s %s)", fg.ghostGet(env.st, cell, srt, ""), k.T), Typ: B}
			}
		}
		fg.specFail(env, "no map range in this loop")
	case "ncalls":
		name := fg.calleeKey(x.Args[0], env)
		return Val{T: fg.ghostGet(env.st, "$calls:"+name, "Int", "0"), Typ: fg.mathInt()}
	case "calledwith":
		// calledwith(F, j, v): some direct call to F so far passed v as argument j (receiver first);
		// calledwith(F, i, v, j, w) with i < j: some call passed v as argument i and w as argument j.
		// A set membership test instead of `exists k :: callarg(F, k, j) == v`: no witness to find.
		name := fg.calleeKey(x.Args[0], env)
		idx := func(n int) int {
			if lit, ok := x.Args[n].(*SLit); ok {
				k, _ := strconv.Atoi(lit.Val)
				return k
			}
			fg.specFail(env, "calledwith: argument index must be a literal")
			return 0
		}
		switch len(x.Args) {
		case 3:
			j := idx(1)
			t := fg.g.calleeArgType(name, j)
			if t == nil {
				fg.specFail(env, "calledwith: %s has no argument %d", name, j)
			}
			v := arg(2, t)
			cell := fmt.Sprintf("$cw:%s:%d", name, j)
			srt := fmt.Sprintf("(Array %s Bool)", enc.sortOf(t))
			return Val{T: fmt.Sprintf("(select %s %s)", fg.ghostGet(env.st, cell, srt, fmt.Sprintf("((as const %s) false)", srt)), v.T), Typ: B}
		case 5:
			i, j := idx(1), idx(3)
			ti, tj := fg.g.calleeArgType(name, i), fg.g.calleeArgType(name, j)
			if ti == nil || tj == nil || i >= j {
				fg.specFail(env, "calledwith: %s needs argument indices i < j that exist", name)
			}
			v, w := arg(2, ti), arg(4, tj)
			cell := fmt.Sprintf("$cw2:%s:%d:%d", name, i, j)
			srt := fmt.Sprintf("(Array %s (Array %s Bool))", enc.sortOf(ti), enc.sortOf(tj))
			init := fmt.Sprintf("((as const %s) ((as const (Array %s Bool)) false))", srt, enc.sortOf(tj))
			return Val{T: fmt.Sprintf("(select (select %s %s) %s)", fg.ghostGet(env.st, cell, srt, init), v.T, w.T), Typ: B}
		}
		fg.specFail(env, "calledwith takes (F, j, v) or (F, i, v, j, w)")
		return Val{}
	case "callarg", "callres":
		// callarg(F, k, j): j-th argument (receiver first) of the k-th direct call to F;
		// callres(F, k, i): its i-th result
		name := fg.calleeKey(x.Args[0], env)
		k := arg(1, fg.mathInt())
		j := 0
		if len(x.Args) > 2 {
			if lit, ok := x.Args[2].(*SLit); ok {
				j, _ = strconv.Atoi(lit.Val)
			}
		}
		var t types.Type
		if x.Fun == "callarg" {
			t = fg.g.calleeArgType(name, j)
		} else {
			t = fg.g.calleeResType(name, j)
		}
		if t == nil {
			fg.specFail(env, "%s: %s has no argument/result %d", x.Fun, name, j)
		}
		cell := fmt.Sprintf("$%s:%s:%d", x.Fun, name, j)
		srt := fmt.Sprintf("(Array Int %s)", enc.sortOf(t))
		return Val{T: fmt.Sprintf("(select %s %s)", fg.ghostGet(env.st, cell, srt, ""), fg.asMathInt(k)), Typ: t}
	case "zeroed":
		// zeroed(p): every field of *p holds its zero value (whatever fields the struct has today)
		v := arg(0, nil)
		p, ok := v.Typ.Underlying().(*types.Pointer)
		if !ok {
			fg.specFail(env, "zeroed expects a pointer")
		}
		return Val{T: fmt.Sprintf("(= %s %s)", fg.loadRef(env.st, v.T, p.Elem()), enc.zero(p.Elem())), Typ: B}
	case "samestate":
		// samestate(p, q): *p and *q hold equal values, field by field (whatever fields the struct has today)
		a, b := arg(0, nil), arg(1, nil)
		p, ok := a.Typ.Underlying().(*types.Pointer)
		if !ok {
			fg.specFail(env, "samestate expects pointers")
		}
		return Val{T: fmt.Sprintf("(= %s %s)", fg.loadRef(env.st, a.T, p.Elem()), fg.loadRef(env.st, b.T, p.Elem())), Typ: B}
	case "callfn":
		// callfn(F, k): the function value the k-th dynamic call through function type F went through
		name := fg.calleeKey(x.Args[0], env)
		k := arg(1, fg.mathInt())
		t := fg.g.calleeArgType(name, -1)
		if t == nil {
			fg.specFail(env, "callfn: %s is not a traced function type", name)
		}
		return Val{T: fmt.Sprintf("(select %s %s)", fg.ghostGet(env.st, "$callfn:"+name, "(Array Int Int)", ""), fg.asMathInt(k)), Typ: t}
	case "callobs":
		// callobs(F, k, name): the value of F's `observe name` expression in the state the k-th call started in
		name := fg.calleeKey(x.Args[0], env)
		k := arg(1, fg.mathInt())
		id, ok := x.Args[2].(*SIdent)
		if !ok {
			fg.specFail(env, "callobs(F, k, name)")
		}
		ob, pk := fg.g.observeOf(name, id.Name)
		if ob == nil {
			fg.specFail(env, "callobs: %s has no `observe %s`", name, id.Name)
		}
		t := fg.g.resolveType(ob.Type, pk)
		if t == nil {
			fg.specFail(env, "callobs: unknown type %s", ob.Type)
		}
		cell := fmt.Sprintf("$callobs:%s:%s", name, id.Name)
		srt := fmt.Sprintf("(Array Int %s)", enc.sortOf(t))
		return Val{T: fmt.Sprintf("(select %s %s)", fg.ghostGet(env.st, cell, srt, ""), fg.asMathInt(k)), Typ: t}
	case "callseq":
		name := fg.calleeKey(x.Args[0], env)
		k := arg(1, fg.mathInt())
		return Val{T: fmt.Sprintf("(select %s %s)", fg.ghostGet(env.st, "$callseq:"+name, "(Array Int Int)", "((as const (Array Int Int)) 0)"), fg.asMathInt(k)), Typ: fg.mathInt()}
	case "unchanged":
		// unchanged(T.f) / unchanged(x.f): component (or location) equal to its old version
		var cs []string
		for _, a := range x.Args {
			cs = append(cs, fg.unchangedTerm(a, env))
		}
		return Val{T: and(cs...), Typ: B}
	case "same":
		// structural identity (for floats: same IEEE datum, NaN included)
		a, b := fg.trPair(x.Args[0], x.Args[1], env, nil)
		return Val{T: fmt.Sprintf("(= %s %s)", a.T, b.T), Typ: B}
	case "isnan":
		v := arg(0, types.Typ[types.Float64])
		return Val{T: fmt.Sprintf("(fp.isNaN %s)", v.T), Typ: B}
	case "oldsame":
		// oldsame(T.f): every object that existed before the call/function keeps its field f
		var cs []string
		for _, a := range x.Args {
			sel, ok := a.(*SSel)
			if !ok {
				fg.specFail(env, "oldsame expects T.f")
			}
			var tn string
			switch q := sel.X.(type) {
			case *SIdent:
				tn = q.Name
			case *SSel:
				tn = q.String()
			}
			t := fg.g.resolveType(tn, env.pkg)
			if t == nil || !isStruct(t) {
				fg.specFail(env, "oldsame: %s is not a struct type", tn)
			}
			items := fg.structFieldItems(t, sel.Name, "")
			for _, it := range items {
				cur, old := fg.get(env.st, it.comp), fg.get(env.old, it.comp)
				if cur == old {
					continue
				}
				enc.usesQuant = true
				fg.needRootOf()
				cs = append(cs, fmt.Sprintf("(forall ((r Int)) (! (=> (< (rootOf r) %s) (= (select %s r) (select %s r))) :pattern ((select %s r))))", env.preAlloc, cur, old, cur))
			}
		}
		return Val{T: and(cs...), Typ: B}
	case "addr":
		// addr(G): the address of package-level variable G
		gl := fg.g.findGlobal(env.pkg, x.Args[0].String())
		if gl == nil {
			fg.specFail(env, "addr: unknown global %s", x.Args[0])
		}
		return Val{T: fg.globalAddr(gl), Typ: gl.Type()}
	case "tomath":
		// machine integer -> mathematical integer (signed value)
		v := arg(0, types.Typ[types.Int])
		if isGhostInt(v.Typ) {
			return v
		}
		if enc.bv {
			bits, signed, _ := intInfo(v.Typ)
			if signed {
				return Val{T: fmt.Sprintf("(ite (bvslt %s %s) (- (bv2nat %s) %s) (bv2nat %s))", v.T, enc.intLit(bigZero, bits), v.T, new(big.Int).Lsh(bigOne, uint(bits)).String(), v.T), Typ: ghostInt}
			}
			return Val{T: fmt.Sprintf("(bv2nat %s)", v.T), Typ: ghostInt}
		}
		return Val{T: v.T, Typ: ghostInt}
	case "toint":
		// mathematical integer -> Go int (only meaningful within range)
		v := arg(0, ghostInt)
		if enc.bv {
			return Val{T: fmt.Sprintf("((_ int2bv 64) %s)", v.T), Typ: types.Typ[types.Int]}
		}
		return Val{T: v.T, Typ: types.Typ[types.Int]}
	case "allocated":
		v := arg(0, nil)
		return Val{T: fmt.Sprintf("(< %s %s)", v.T, fg.allocTerm(env.st)), Typ: B}
	case "tag":
		v := arg(0, nil)
		return Val{T: fmt.Sprintf("(atag %s)", v.T), Typ: fg.mathInt()}
	case "typeid":
		t := fg.g.resolveType(x.Args[0].String(), env.pkg)
		if t == nil {
			fg.specFail(env, "unknown type %s", x.Args[0])
		}
		return Val{T: fmt.Sprintf("%d", enc.typeID(t)), Typ: fg.mathInt()}
	}
	// conversions to basic types
	if t := fg.g.resolveType(x.Fun, env.pkg); t != nil && len(x.Args) == 1 {
		v := arg(0, t)
		switch {
		case isInt(t) && isInt(v.Typ):
			return Val{T: fg.convInt(v.T, v.Typ, t), Typ: t}
		case isFloat(t) && isInt(v.Typ):
			return Val{T: fg.intToFloat(v.T, v.Typ, t), Typ: t}
		case isFloat(t) && isFloat(v.Typ):
			return Val{T: v.T, Typ: t}
		case isInt(t) && isFloat(v.Typ) && enc.bv:
			bits, signed, _ := intInfo(t)
			f := "fp.to_sbv"
			if !signed {
				f = "fp.to_ubv"
			}
			return Val{T: fmt.Sprintf("((_ %s %d) RTZ %s)", f, bits, v.T), Typ: t}
		case isInt(t) && isFloat(v.Typ):
			return Val{T: fg.f2iMath(v.T, t), Typ: t}
		case enc.sortOf(t) == enc.sortOf(v.Typ):
			return Val{T: v.T, Typ: t}
		case isIface(t):
			return Val{T: fg.box(v.T, v.Typ), Typ: t}
		}
		fg.specFail(env, "conversion %s(%s) not supported", x.Fun, v.Typ)
	}
	// spec functions
	if sf := fg.g.lookupSpec(x.Fun, env.pkg); sf != nil {
		return fg.trSpecCall(sf, x, env)
	}
	fg.specFail(env, "unknown function %s", x.Fun)
	return Val{}
}

// ghostInt: the type of specification-only mathematical integers (call counts, sequence
// numbers, type tags); always the SMT sort Int, whatever the integer mode of the function.
var ghostInt = types.NewNamed(types.NewTypeName(token.NoPos, nil, "mathint", nil), types.Typ[types.Int], nil)

func isGhostInt(t types.Type) bool { return t == ghostInt }

func (fg *FuncGen) mathInt() types.Type { return ghostInt }

// asMathInt: ghost sequences are indexed by mathematical Ints.
func (fg *FuncGen) asMathInt(v Val) string {
	if fg.enc.bv && !isGhostInt(v.Typ) {
		return fmt.Sprintf("(bv2nat %s)", v.T)
	}
	return v.T
}

func nextBlockOf(r *ssa.Range) *ssa.BasicBlock { return r.Block() }

func (fg *FuncGen) rangeInLoop(r *ssa.Range, li *loopInfo) bool {
	for _, ref := range *r.Referrers() {
		if n, ok := ref.(*ssa.Next); ok && n.Block() == li.header {
			return true
		}
	}
	return false
}

// spec functions are inlined at each use (they are non-recursive).
func (fg *FuncGen) trSpecCall(sf *SpecFun, x *SCall, env *SpecEnv) Val {
	if len(x.Args) != len(sf.Params) {
		fg.specFail(env, "spec %s expects %d arguments", sf.Name, len(sf.Params))
	}
	sp := fg.g.pkgByPath(sf.Pkg)
	ne := &SpecEnv{st: env.st, old: env.old, vars: map[string]Val{}, pkg: sp, preAlloc: env.preAlloc, results: nil, what: "spec " + sf.Name, loop: env.loop, quant: env.quant}
	for i, p := range sf.Params {
		pt := fg.g.resolveType(p[1], sp)
		if pt == nil {
			fg.specFail(env, "spec %s: unknown type %s", sf.Name, p[1])
		}
		v := fg.tr(x.Args[i], env, pt)
		if fg.enc.sortOf(v.Typ) != fg.enc.sortOf(pt) {
			if isIface(pt) && !isIface(v.Typ) {
				v = Val{T: fg.box(v.T, v.Typ), Typ: pt}
			} else if isInt(pt) && isInt(v.Typ) {
				v = Val{T: fg.convInt(v.T, v.Typ, pt), Typ: pt}
			} else if pp, ok := pt.Underlying().(*types.Pointer); ok && v.Src != "" && types.Identical(pp.Elem(), v.Typ) {
				// an embedded struct field passed where its address is wanted (p.lex for *Lexer)
				v = Val{T: v.Src, Typ: pt}
			} else {
				fg.specFail(env, "spec %s: argument %d has type %s, want %s", sf.Name, i, v.Typ, pt)
			}
		}
		ne.vars[p[0]] = Val{T: v.T, Typ: pt}
	}
	rt := fg.g.resolveType(sf.Ret, sp)
	if fg.g.specDepth > 20 {
		fg.specFail(env, "spec recursion too deep in %s", sf.Name)
	}
	fg.g.specDepth++
	defer func() { fg.g.specDepth-- }()
	r := fg.tr(sf.Body, ne, rt)
	if rt != nil {
		r.Typ = rt
	}
	return r
}

func (fg *FuncGen) unchangedTerm(a SExpr, env *SpecEnv) string {
	sel, ok := a.(*SSel)
	if !ok {
		fg.specFail(env, "unchanged expects T.f or x.f")
	}
	if id, ok := sel.X.(*SIdent); ok {
		if t := fg.g.resolveType(id.Name, env.pkg); t != nil && isStruct(t) {
			if _, bound := env.vars[id.Name]; !bound {
				u := t.Underlying().(*types.Struct)
				for i := 0; i < u.NumFields(); i++ {
					if u.Field(i).Name() == sel.Name {
						c := fg.fieldComp(t, i)
						return fmt.Sprintf("(= %s %s)", fg.get(env.st, c), fg.get(env.old, c))
					}
				}
				fg.specFail(env, "no field %s", sel.Name)
			}
		}
	}
	ne := *env
	ne.st = env.old
	cur := fg.tr(a, env, nil)
	old := fg.tr(a, &ne, nil)
	return fmt.Sprintf("(= %s %s)", cur.T, old.T)
}

func (fg *FuncGen) calleeKey(e SExpr, env *SpecEnv) string {
	return calleeKeyOf(e)
}

// calleeKeyOf: the trace key of a callee named in ncalls/callarg/...: Name, pkg.Name or (*T).Name
func calleeKeyOf(e SExpr) string {
	if sel, ok := e.(*SSel); ok {
		if t, ok := sel.X.(*SType); ok {
			txt := strings.ReplaceAll(t.Text, " ", "")
			// (*pkg.T).M  ->  pkg.(*T).M   (the key under which calls of external methods are recorded)
			bare := strings.TrimPrefix(txt, "*")
			if i := strings.LastIndex(bare, "."); i > 0 {
				star := ""
				if strings.HasPrefix(txt, "*") {
					star = "*"
				}
				return bare[:i] + ".(" + star + bare[i+1:] + ")." + sel.Name
			}
			return "(" + txt + ")." + sel.Name
		}
	}
	return strings.ReplaceAll(e.String(), " ", "")
}

var _ = constant.MakeBool

// specHeapFact: a reference read from the heap in a specification denotes an allocated
// object (heap well-formedness), exactly as for a load in the code.
func (fg *FuncGen) specHeapFact(term string, t types.Type, env *SpecEnv) {
	if env.quant {
		return
	}
	switch t.Underlying().(type) {
	case *types.Pointer, *types.Map, *types.Slice, *types.Basic:
		if f := fg.typeFactsTerm(term, t, env.st); f != "" {
			fg.assume(f)
		}
	}
	if isPtr(t) {
		fg.assumeObjInvIn(Val{T: term, Typ: t}, env.st)
	}
}
