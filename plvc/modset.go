package main

// Mechanically inferred frames: for every module function, the set of heap
// components it (transitively) may write.  Sound over-approximation at component
// (type, field) granularity; used for callees without a modifies clause, for loop
// havoc, and as the deciding analysis of the write-set property (C16).

import (
	"fmt"
	"go/types"
	"strings"

	"golang.org/x/tools/go/ssa"
)

type ModDesc struct {
	Kind  string // field elem box map global
	T     types.Type
	Field int
	G     *ssa.Global
	Where string // first site
}

type ModSet struct {
	Descs map[string]*ModDesc
	All   bool
	Why   string // why All
}

func (m *ModSet) add(d *ModDesc) bool {
	k := d.key()
	if _, ok := m.Descs[k]; ok {
		return false
	}
	m.Descs[k] = d
	return true
}

func (d *ModDesc) key() string {
	switch d.Kind {
	case "field":
		return fmt.Sprintf("field %s.%s", typeKey(d.T), d.T.Underlying().(*types.Struct).Field(d.Field).Name())
	case "global":
		return "global " + d.G.Pkg.Pkg.Path() + "." + d.G.Name()
	}
	return d.Kind + " " + typeKey(d.T)
}

func allocDescs(t types.Type, where string) []*ModDesc {
	var out []*ModDesc
	switch u := t.Underlying().(type) {
	case *types.Struct:
		for i := 0; i < u.NumFields(); i++ {
			ft := u.Field(i).Type()
			if isStruct(ft) || isArray(ft) {
				out = append(out, allocDescs(ft, where)...)
			} else {
				out = append(out, &ModDesc{Kind: "field", T: t, Field: i, Where: where})
			}
		}
	case *types.Array:
		out = append(out, &ModDesc{Kind: "elem", T: u.Elem(), Where: where})
	default:
		out = append(out, &ModDesc{Kind: "box", T: t, Where: where})
	}
	return out
}

// addrDescs: which components a store through addr may hit. local=true when the
// address designates a non-escaping local variable.
func addrDescs(addr ssa.Value, where string) (descs []*ModDesc, local bool) {
	switch x := addr.(type) {
	case *ssa.Alloc:
		if !x.Heap {
			return nil, true
		}
		return allocDescs(x.Type().(*types.Pointer).Elem(), where), false
	case *ssa.Global:
		return []*ModDesc{{Kind: "global", G: x, Where: where}}, false
	case *ssa.IndexAddr:
		switch u := x.X.Type().Underlying().(type) {
		case *types.Slice:
			return []*ModDesc{{Kind: "elem", T: u.Elem(), Where: where}}, false
		case *types.Pointer:
			_, loc := addrDescs(x.X, where)
			if loc {
				return nil, true
			}
			if isValueRooted(x.X) {
				return addrDescs(x.X, where)
			}
			return []*ModDesc{{Kind: "elem", T: u.Elem().Underlying().(*types.Array).Elem(), Where: where}}, false
		}
	case *ssa.FieldAddr:
		_, loc := addrDescs(x.X, where)
		if loc {
			return nil, true
		}
		if isValueRooted(x.X) {
			// field of a struct value stored in an element / global: the root component is hit
			return addrDescs(x.X, where)
		}
		st := x.X.Type().Underlying().(*types.Pointer).Elem()
		ft := st.Underlying().(*types.Struct).Field(x.Field).Type()
		if isStruct(ft) || isArray(ft) {
			return allocDescs(ft, where), false
		}
		return []*ModDesc{{Kind: "field", T: st, Field: x.Field, Where: where}}, false
	}
	// arbitrary pointer value
	if p, ok := addr.Type().Underlying().(*types.Pointer); ok {
		return allocDescs(p.Elem(), where), false
	}
	return nil, false
}

// isValueRooted: the address is a path into a struct/array VALUE held in a slice
// element or global (as opposed to a heap object referenced by a pointer).
func isValueRooted(v ssa.Value) bool {
	switch x := v.(type) {
	case *ssa.IndexAddr:
		if _, ok := x.X.Type().Underlying().(*types.Slice); ok {
			return true
		}
		return isValueRooted(x.X)
	case *ssa.Global:
		return true
	case *ssa.FieldAddr:
		return isValueRooted(x.X)
	}
	return false
}

func (g *Gen) storeComps(fg *FuncGen, addr ssa.Value) []string {
	ds, _ := addrDescs(addr, "")
	var out []string
	for _, it := range fg.descItems(&ModSet{Descs: descMap(ds)}) {
		out = append(out, it.comp.Name)
	}
	return out
}

func (g *Gen) allocComps(fg *FuncGen, t types.Type) []string {
	var out []string
	for _, it := range fg.descItems(&ModSet{Descs: descMap(allocDescs(t, ""))}) {
		out = append(out, it.comp.Name)
	}
	return out
}

func descMap(ds []*ModDesc) map[string]*ModDesc {
	m := map[string]*ModDesc{}
	for _, d := range ds {
		m[d.key()] = d
	}
	return m
}

// inferredMods computes (and caches) the transitive write set of fn.  Recursion is
// resolved by iterating to a fixpoint.
func (g *Gen) inferredMods(fn *ssa.Function) *ModSet {
	if ms, ok := g.modCache[fn]; ok && !g.modDirty {
		return ms
	}
	if len(g.modCache) == 0 || g.modDirty {
		g.computeAllMods()
	}
	if ms, ok := g.modCache[fn]; ok {
		return ms
	}
	return &ModSet{Descs: map[string]*ModDesc{}, All: true, Why: "function not analysed"}
}

func (g *Gen) computeAllMods() {
	g.modDirty = false
	fns := g.allFunctionsIncludingClosures()
	for _, fn := range fns {
		g.modCache[fn] = &ModSet{Descs: map[string]*ModDesc{}}
	}
	changed := true
	for iter := 0; changed && iter < 50; iter++ {
		changed = false
		for _, fn := range fns {
			ms := g.modCache[fn]
			for _, b := range fn.Blocks {
				for _, in := range b.Instrs {
					where := fmt.Sprintf("%s @%d", funcDisplayName(fn), in.Pos())
					switch x := in.(type) {
					case *ssa.Store:
						ds, local := addrDescs(x.Addr, where)
						if local {
							continue
						}
						for _, d := range ds {
							if ms.add(d) {
								changed = true
							}
						}
					case *ssa.MapUpdate:
						if ms.add(&ModDesc{Kind: "map", T: x.Map.Type(), Where: where}) {
							changed = true
						}
					case *ssa.Go:
						if !ms.All {
							ms.All, ms.Why, changed = true, "go statement", true
						}
					case ssa.CallInstruction:
						if g.callEffects(fn, x.Common(), ms, where) {
							changed = true
						}
					}
				}
			}
		}
	}
}

func (g *Gen) allFunctionsIncludingClosures() []*ssa.Function {
	var fns []*ssa.Function
	for _, fn := range g.allFunctions() {
		fns = append(fns, fn)
		var rec func(f *ssa.Function)
		rec = func(f *ssa.Function) {
			for _, a := range f.AnonFuncs {
				fns = append(fns, a)
				rec(a)
			}
		}
		rec(fn)
	}
	return fns
}

// callEffects merges the callee's effects into ms; reports whether ms grew.
func (g *Gen) callEffects(caller *ssa.Function, c *ssa.CallCommon, ms *ModSet, where string) bool {
	changed := false
	addAll := func(why string) {
		if !ms.All {
			ms.All, ms.Why, changed = true, why+" at "+where, true
		}
	}
	if b, ok := c.Value.(*ssa.Builtin); ok {
		switch b.Name() {
		case "append", "copy":
			if sl, ok := c.Args[0].Type().Underlying().(*types.Slice); ok {
				if ms.add(&ModDesc{Kind: "elem", T: sl.Elem(), Where: where}) {
					changed = true
				}
			}
		case "delete", "clear":
			if ms.add(&ModDesc{Kind: "map", T: c.Args[0].Type(), Where: where}) {
				changed = true
			}
		}
		return changed
	}
	var ct *Contract
	var callee *ssa.Function
	ext := false
	if c.IsInvoke() {
		if n, ok := c.Value.Type().(*types.Named); ok && n.Obj().Pkg() != nil {
			ct = g.cs.ByKey["iface "+n.Obj().Pkg().Path()+" "+n.Obj().Name()+"."+c.Method.Name()]
		} else if n, ok := c.Value.Type().(*types.Named); ok {
			ct = g.cs.ByKey["extern "+n.Obj().Name()+"."+c.Method.Name()]
			ext = true
		}
		if ct == nil {
			// all implementations inside the module
			impls := g.implementations(c.Value.Type(), c.Method)
			if len(impls) == 0 {
				if ext || !g.ifaceInModule(c.Value.Type()) {
					return changed // external interface (error, fmt.Stringer...): assumed not to write module memory
				}
				addAll("interface call " + c.Method.Name() + " without contract or implementation")
				return changed
			}
			for _, f := range impls {
				if g.mergeMods(ms, g.modCache[f]) {
					changed = true
				}
			}
			return changed
		}
	} else if callee = c.StaticCallee(); callee != nil {
		ct, _ = g.contractFor(callee)
		ext = callee.Pkg == nil || !g.inModule(callee.Pkg.Pkg.Path())
	} else {
		if mc, ok := c.Value.(*ssa.MakeClosure); ok {
			if f, ok := mc.Fn.(*ssa.Function); ok {
				return g.mergeMods(ms, g.modCache[f])
			}
		}
		if n, ok := c.Value.Type().(*types.Named); ok && n.Obj().Pkg() != nil {
			ct = g.cs.ByKey["functype "+n.Obj().Pkg().Path()+" "+n.Obj().Name()]
		}
		if ct == nil {
			if sig, ok := c.Value.Type().Underlying().(*types.Signature); ok && caller.Pkg != nil {
				ct = g.cs.ByKey["functype "+caller.Pkg.Pkg.Path()+" "+types.TypeString(sig, func(p *types.Package) string { return p.Name() })]
			}
		}
		if ct == nil {
			addAll("call of a function value without contract")
			return changed
		}
	}
	if ct != nil && ct.Pure {
		return changed
	}
	if ct != nil && ct.HasMod {
		ds, all := g.modifiesDescs(ct, where)
		if all {
			addAll("contract modifies *")
		}
		for _, d := range ds {
			if ms.add(d) {
				changed = true
			}
		}
		return changed
	}
	if callee != nil && !ext {
		if cm, ok := g.modCache[callee]; ok {
			return g.mergeMods(ms, cm)
		}
		return changed
	}
	// external without frame: memory reachable from pointer-like arguments
	for _, a := range c.Args {
		switch u := a.Type().Underlying().(type) {
		case *types.Pointer:
			if _, local := addrDescs(a, where); local {
				continue
			}
			for _, d := range allocDescs(u.Elem(), where) {
				if ms.add(d) {
					changed = true
				}
			}
		case *types.Map:
			if ms.add(&ModDesc{Kind: "map", T: a.Type(), Where: where}) {
				changed = true
			}
		}
	}
	return changed
}

func (g *Gen) mergeMods(dst, src *ModSet) bool {
	if src == nil {
		return false
	}
	changed := false
	if src.All && !dst.All {
		dst.All, dst.Why, changed = true, src.Why, true
	}
	for _, d := range src.Descs {
		if dst.add(d) {
			changed = true
		}
	}
	return changed
}

func (g *Gen) ifaceInModule(t types.Type) bool {
	n, ok := t.(*types.Named)
	return ok && n.Obj().Pkg() != nil && g.inModule(n.Obj().Pkg().Path())
}

func (g *Gen) implementations(it types.Type, m *types.Func) []*ssa.Function {
	iface, ok := it.Underlying().(*types.Interface)
	if !ok {
		return nil
	}
	var out []*ssa.Function
	for _, t := range g.typeByKey {
		n, ok := t.(*types.Named)
		if !ok || n.Obj().Pkg() == nil || !g.inModule(n.Obj().Pkg().Path()) {
			continue
		}
		for _, cand := range []types.Type{n, types.NewPointer(n)} {
			if _, isI := cand.Underlying().(*types.Interface); isI {
				continue
			}
			if types.Implements(cand, iface) {
				sel := g.prog.MethodSets.MethodSet(cand).Lookup(m.Pkg(), m.Name())
				if sel != nil {
					if f := g.prog.MethodValue(sel); f != nil {
						out = append(out, f)
					}
				}
			}
		}
	}
	return out
}

// modifiesDescs: component-level reading of a modifies clause.
func (g *Gen) modifiesDescs(ct *Contract, where string) (out []*ModDesc, all bool) {
	basePkg := g.pkgByPath(ct.Pkg)
	for _, it := range g.expandFrame(ct.Modifies) {
		pkg := basePkg
		if i := strings.Index(it, "::"); i > 0 {
			if p := g.pkgByPath(it[:i]); p != nil {
				pkg = p
			}
			it = it[i+2:]
		}
		switch it {
		case "nothing":
			continue
		case "*":
			return nil, true
		}
		ex, err := parseSpec(it)
		if err != nil {
			return nil, true
		}
		switch x := ex.(type) {
		case *SSel:
			ds := g.selDescs(ct, x, pkg, where)
			if ds == nil {
				return nil, true
			}
			out = append(out, ds...)
		case *SCall:
			switch x.Fun {
			case "elemsof":
				if t := g.resolveType(x.Args[0].String(), pkg); t != nil {
					out = append(out, &ModDesc{Kind: "elem", T: t, Where: where})
				}
			case "maptype":
				if t := g.resolveType(x.Args[0].String(), pkg); t != nil {
					out = append(out, &ModDesc{Kind: "map", T: t, Where: where})
				}
			case "alltype":
				if t := g.resolveType(x.Args[0].String(), pkg); t != nil {
					out = append(out, allocDescs(t, where)...)
				}
			case "global":
				if gl := g.findGlobal(pkg, x.Args[0].String()); gl != nil {
					out = append(out, &ModDesc{Kind: "global", G: gl, Where: where})
				}
			case "elems", "mapof", "all":
				t := g.staticTypeOf(ct, x.Args[0], pkg)
				if t == nil {
					return nil, true
				}
				switch u := t.Underlying().(type) {
				case *types.Slice:
					out = append(out, &ModDesc{Kind: "elem", T: u.Elem(), Where: where})
				case *types.Map:
					out = append(out, &ModDesc{Kind: "map", T: t, Where: where})
				case *types.Pointer:
					out = append(out, allocDescs(u.Elem(), where)...)
				}
			default:
				return nil, true
			}
		default:
			return nil, true
		}
	}
	return out, false
}

func (g *Gen) selDescs(ct *Contract, x *SSel, pkg *types.Package, where string) []*ModDesc {
	var st types.Type
	if id, ok := x.X.(*SIdent); ok {
		if t := g.resolveType(id.Name, pkg); t != nil && isStruct(t) && !g.isParamName(ct, id.Name) {
			st = t
		}
	}
	if s2, ok := x.X.(*SSel); ok && st == nil {
		if id, ok := s2.X.(*SIdent); ok && !g.isParamName(ct, id.Name) {
			if t := g.resolveType(id.Name+"."+s2.Name, pkg); t != nil && isStruct(t) {
				st = t
			}
		}
	}
	if st == nil {
		t := g.staticTypeOf(ct, x.X, pkg)
		if t == nil {
			return nil
		}
		p, ok := t.Underlying().(*types.Pointer)
		if !ok {
			return nil
		}
		st = p.Elem()
	}
	u, ok := st.Underlying().(*types.Struct)
	if !ok {
		return nil
	}
	for i := 0; i < u.NumFields(); i++ {
		if u.Field(i).Name() == x.Name {
			ft := u.Field(i).Type()
			if isStruct(ft) || isArray(ft) {
				return allocDescs(ft, where)
			}
			return []*ModDesc{{Kind: "field", T: st, Field: i, Where: where}}
		}
	}
	return nil
}

func (g *Gen) contractSig(ct *Contract) (*types.Signature, []string) {
	pkg := g.pkgByPath(ct.Pkg)
	switch ct.Kind {
	case "func":
		for fn := range g.allFuncSet() {
			if fn.Pkg != nil && fn.Pkg.Pkg.Path() == ct.Pkg && methodKey(fn) == ct.Key {
				return fn.Signature, sigParamNames(fn.Signature, true)
			}
		}
	case "functype":
		if pkg != nil {
			if tn, ok := pkg.Scope().Lookup(ct.Key).(*types.TypeName); ok {
				if s, ok := tn.Type().Underlying().(*types.Signature); ok {
					ns := sigParamNames(s, false)
					if len(ct.Params) > 0 {
						ns = ct.Params
					}
					return s, ns
				}
			}
		}
	case "iface":
		// Iface.Method
		for i := 0; i < len(ct.Key); i++ {
			if ct.Key[i] == '.' && pkg != nil {
				if tn, ok := pkg.Scope().Lookup(ct.Key[:i]).(*types.TypeName); ok {
					if it, ok := tn.Type().Underlying().(*types.Interface); ok {
						for k := 0; k < it.NumMethods(); k++ {
							if it.Method(k).Name() == ct.Key[i+1:] {
								s := it.Method(k).Type().(*types.Signature)
								ns := append([]string{"recv"}, sigParamNames(s, false)...)
								if len(ct.Params) > 0 {
									ns = ct.Params
								}
								return s, ns
							}
						}
					}
				}
			}
		}
	}
	return nil, nil
}

func (g *Gen) allFuncSet() map[*ssa.Function]bool {
	if g.funcSet == nil {
		g.funcSet = map[*ssa.Function]bool{}
		for _, f := range g.allFunctionsIncludingClosures() {
			g.funcSet[f] = true
		}
	}
	return g.funcSet
}

func (g *Gen) isParamName(ct *Contract, name string) bool {
	_, ns := g.contractSig(ct)
	for _, n := range ns {
		if n == name {
			return true
		}
	}
	return false
}

// staticTypeOf: Go type of a simple access path (param, param.f.g) in a contract.
func (g *Gen) staticTypeOf(ct *Contract, e SExpr, pkg *types.Package) types.Type {
	switch x := e.(type) {
	case *SIdent:
		sig, ns := g.contractSig(ct)
		if sig == nil {
			return nil
		}
		off := 0
		if sig.Recv() != nil && ct.Kind == "func" {
			if len(ns) > 0 && ns[0] == x.Name {
				return sig.Recv().Type()
			}
			off = 1
		}
		if ct.Kind == "iface" {
			off = 1
		}
		for i := off; i < len(ns); i++ {
			if ns[i] == x.Name && i-off < sig.Params().Len() {
				return sig.Params().At(i - off).Type()
			}
		}
	case *SSel:
		t := g.staticTypeOf(ct, x.X, pkg)
		if t == nil {
			return nil
		}
		if p, ok := t.Underlying().(*types.Pointer); ok {
			t = p.Elem()
		}
		if u, ok := t.Underlying().(*types.Struct); ok {
			for i := 0; i < u.NumFields(); i++ {
				if u.Field(i).Name() == x.Name {
					return u.Field(i).Type()
				}
			}
		}
	}
	return nil
}
