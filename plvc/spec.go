package main

// Contract expression language: a small Pratt parser over go/scanner tokens.
//
//   e ::= forall x[, y] [T] :: e | exists ... :: e
//       | e <==> e | e ==> e | c ? a : b | e || e | e && e
//       | e (== != < <= > >=) e | e (+ - | ^) e | e (* / % &) e
//       | !e | -e | e.f | e[i] | e[lo:hi] | e.(T) | f(args) | old(e)
//       | ident | literal | (e)
//
// `typeis(v, T)` and `e.(T)` take a Go type (text is resolved with go/types).

import (
	"fmt"
	"go/scanner"
	"go/token"
	"strings"
)

type SExpr interface{ String() string }

type (
	SIdent struct{ Name string }
	SLit   struct {
		Kind token.Token // INT FLOAT STRING CHAR
		Val  string
	}
	SBin struct {
		Op   string
		L, R SExpr
	}
	SUn struct {
		Op string
		X  SExpr
	}
	SCall struct {
		Fun  string
		Args []SExpr
	}
	SSel struct {
		X    SExpr
		Name string
	}
	SIndex  struct{ X, I SExpr }
	SSlice  struct{ X, Lo, Hi SExpr }
	SAssert struct {
		X    SExpr
		Type string
	}
	SQuant struct {
		Forall bool
		Vars   []string
		Type   string
		Body   SExpr
	}
	SCond struct{ C, A, B SExpr }
	SType struct{ Text string }
)

func (e *SIdent) String() string  { return e.Name }
func (e *SLit) String() string    { return e.Val }
func (e *SBin) String() string    { return "(" + e.L.String() + " " + e.Op + " " + e.R.String() + ")" }
func (e *SUn) String() string     { return e.Op + e.X.String() }
func (e *SSel) String() string    { return e.X.String() + "." + e.Name }
func (e *SIndex) String() string  { return e.X.String() + "[" + e.I.String() + "]" }
func (e *SAssert) String() string { return e.X.String() + ".(" + e.Type + ")" }
func (e *SType) String() string   { return e.Text }
func (e *SCond) String() string {
	return "(" + e.C.String() + " ? " + e.A.String() + " : " + e.B.String() + ")"
}
func (e *SSlice) String() string {
	lo, hi := "", ""
	if e.Lo != nil {
		lo = e.Lo.String()
	}
	if e.Hi != nil {
		hi = e.Hi.String()
	}
	return e.X.String() + "[" + lo + ":" + hi + "]"
}
func (e *SCall) String() string {
	var as []string
	for _, a := range e.Args {
		as = append(as, a.String())
	}
	return e.Fun + "(" + strings.Join(as, ", ") + ")"
}
func (e *SQuant) String() string {
	k := "exists"
	if e.Forall {
		k = "forall"
	}
	return k + " " + strings.Join(e.Vars, ",") + " " + e.Type + " :: " + e.Body.String()
}

type stok struct {
	tok token.Token
	lit string
	pos int
	end int
}

type sparser struct {
	src  string
	toks []stok
	i    int
}

func parseSpec(src string) (e SExpr, err error) {
	defer func() {
		if r := recover(); r != nil {
			err = fmt.Errorf("spec parse error in %q: %v", src, r)
		}
	}()
	p := &sparser{src: src}
	fset := token.NewFileSet()
	f := fset.AddFile("", fset.Base(), len(src))
	var s scanner.Scanner
	s.Init(f, []byte(src), func(pos token.Position, msg string) {
		if strings.Contains(msg, "U+003F") {
			return
		}
		panic(msg)
	}, 0)
	for {
		pos, tok, lit := s.Scan()
		if tok == token.EOF {
			break
		}
		if tok == token.SEMICOLON && lit == "\n" {
			continue
		}
		off := f.Offset(pos)
		l := lit
		if l == "" {
			l = tok.String()
		}
		p.toks = append(p.toks, stok{tok, lit, off, off + len(l)})
	}
	e = p.expr(0)
	if p.i != len(p.toks) {
		panic(fmt.Sprintf("trailing tokens at %d (%v)", p.toks[p.i].pos, p.toks[p.i].tok))
	}
	return e, nil
}

func (p *sparser) peek() stok {
	if p.i < len(p.toks) {
		return p.toks[p.i]
	}
	return stok{tok: token.EOF}
}
func (p *sparser) next() stok { t := p.peek(); p.i++; return t }
func (p *sparser) expect(t token.Token) stok {
	x := p.next()
	if x.tok != t {
		panic(fmt.Sprintf("expected %v, got %v at %d", t, x.tok, x.pos))
	}
	return x
}

// opAt recognises multi-token operators: ==> <==> ::
func (p *sparser) opAt() (string, int) {
	t := p.peek()
	t1 := stok{tok: token.EOF}
	t2 := stok{tok: token.EOF}
	if p.i+1 < len(p.toks) {
		t1 = p.toks[p.i+1]
	}
	if p.i+2 < len(p.toks) {
		t2 = p.toks[p.i+2]
	}
	adj := func(a, b stok) bool { return a.end == b.pos }
	switch {
	case t.tok == token.LEQ && t1.tok == token.ASSIGN && t2.tok == token.GTR && adj(t, t1) && adj(t1, t2):
		return "<==>", 3
	case t.tok == token.LSS && t1.tok == token.EQL && t2.tok == token.GTR && adj(t, t1) && adj(t1, t2):
		return "<==>", 3
	case t.tok == token.EQL && t1.tok == token.GTR && adj(t, t1):
		return "==>", 2
	case t.tok == token.COLON && t1.tok == token.COLON && adj(t, t1):
		return "::", 2
	}
	switch t.tok {
	case token.LOR, token.LAND, token.EQL, token.NEQ, token.LSS, token.LEQ, token.GTR, token.GEQ,
		token.ADD, token.SUB, token.MUL, token.QUO, token.REM, token.AND, token.OR, token.XOR, token.SHL, token.SHR:
		return t.tok.String(), 1
	}
	if t.tok == token.ILLEGAL && t.lit == "?" {
		return "?", 1
	}
	return "", 0
}

var sprec = map[string]int{
	"<==>": 1, "==>": 2, "?": 3, "||": 4, "&&": 5,
	"==": 6, "!=": 6, "<": 6, "<=": 6, ">": 6, ">=": 6,
	"+": 7, "-": 7, "|": 7, "^": 7,
	"*": 8, "/": 8, "%": 8, "&": 8, "<<": 8, ">>": 8,
}

func (p *sparser) expr(minPrec int) SExpr {
	t := p.peek()
	if t.tok == token.IDENT && (t.lit == "forall" || t.lit == "exists") {
		// quantifier extends as far right as possible
		p.next()
		q := &SQuant{Forall: t.lit == "forall"}
		for {
			q.Vars = append(q.Vars, p.expect(token.IDENT).lit)
			if p.peek().tok == token.COMMA {
				p.next()
				continue
			}
			break
		}
		// optional type up to ::
		start := p.peek().pos
		for {
			if op, _ := p.opAt(); op == "::" {
				break
			}
			if p.peek().tok == token.EOF {
				panic("quantifier without ::")
			}
			p.next()
		}
		q.Type = strings.TrimSpace(p.src[start:p.peek().pos])
		p.i += 2
		q.Body = p.expr(0)
		return q
	}
	lhs := p.unary()
	for {
		op, n := p.opAt()
		if op == "" || op == "::" {
			return lhs
		}
		pr := sprec[op]
		if pr < minPrec {
			return lhs
		}
		p.i += n
		switch op {
		case "==>":
			rhs := p.expr(pr) // right assoc
			lhs = &SBin{Op: op, L: lhs, R: rhs}
		case "?":
			a := p.expr(pr + 1)
			p.expect(token.COLON)
			b := p.expr(pr)
			lhs = &SCond{C: lhs, A: a, B: b}
		default:
			rhs := p.expr(pr + 1)
			lhs = &SBin{Op: op, L: lhs, R: rhs}
		}
	}
}

func (p *sparser) unary() SExpr {
	t := p.peek()
	switch t.tok {
	case token.NOT:
		p.next()
		return &SUn{Op: "!", X: p.unary()}
	case token.SUB:
		p.next()
		return &SUn{Op: "-", X: p.unary()}
	case token.ADD:
		p.next()
		return p.unary()
	}
	return p.postfix(p.primary())
}

// typeText consumes tokens of a Go type up to the matching close paren / comma at depth 0.
func (p *sparser) typeText() string {
	depth := 0
	start := p.peek().pos
	end := start
	for {
		t := p.peek()
		if t.tok == token.EOF {
			break
		}
		if depth == 0 && (t.tok == token.RPAREN || t.tok == token.COMMA) {
			break
		}
		switch t.tok {
		case token.LPAREN, token.LBRACK, token.LBRACE:
			depth++
		case token.RPAREN, token.RBRACK, token.RBRACE:
			depth--
		}
		end = t.end
		p.next()
	}
	return strings.TrimSpace(p.src[start:end])
}

func (p *sparser) primary() SExpr {
	t := p.next()
	switch t.tok {
	case token.IDENT:
		return &SIdent{Name: t.lit}
	case token.INT, token.FLOAT, token.STRING, token.CHAR:
		return &SLit{Kind: t.tok, Val: t.lit}
	case token.LPAREN:
		e := p.expr(0)
		p.expect(token.RPAREN)
		return e
	case token.LBRACK, token.MAP, token.MUL, token.INTERFACE, token.STRUCT, token.FUNC:
		// a type used as conversion target or type argument: rewind and grab text
		p.i--
		return &SType{Text: p.typeText()}
	}
	panic(fmt.Sprintf("unexpected token %v %q at %d", t.tok, t.lit, t.pos))
}

func (p *sparser) postfix(x SExpr) SExpr {
	for {
		t := p.peek()
		switch t.tok {
		case token.PERIOD:
			p.next()
			if p.peek().tok == token.LPAREN {
				p.next()
				ty := p.typeText()
				p.expect(token.RPAREN)
				x = &SAssert{X: x, Type: ty}
				continue
			}
			x = &SSel{X: x, Name: p.expect(token.IDENT).lit}
		case token.LBRACK:
			p.next()
			var lo, hi SExpr
			if p.peek().tok != token.COLON {
				lo = p.expr(0)
			}
			if p.peek().tok == token.COLON {
				p.next()
				if p.peek().tok != token.RBRACK {
					hi = p.expr(0)
				}
				p.expect(token.RBRACK)
				x = &SSlice{X: x, Lo: lo, Hi: hi}
				continue
			}
			p.expect(token.RBRACK)
			x = &SIndex{X: x, I: lo}
		case token.LPAREN:
			// call: function name is the printed form of x (ident or pkg.ident)
			name := ""
			switch f := x.(type) {
			case *SIdent:
				name = f.Name
			case *SSel:
				if id, ok := f.X.(*SIdent); ok {
					name = id.Name + "." + f.Name
				}
			case *SType:
				name = f.Text
			}
			if name == "" {
				return x
			}
			p.next()
			c := &SCall{Fun: name}
			for p.peek().tok != token.RPAREN {
				if name == "typeis" && len(c.Args) == 1 {
					c.Args = append(c.Args, &SType{Text: p.typeText()})
				} else {
					c.Args = append(c.Args, p.expr(0))
				}
				if p.peek().tok == token.COMMA {
					p.next()
				}
			}
			p.expect(token.RPAREN)
			x = c
		default:
			return x
		}
	}
}
