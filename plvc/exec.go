package main

// Instruction semantics.

import (
	"fmt"
	"go/token"
	"go/types"
	"strings"

	"golang.org/x/tools/go/ssa"
)

func (fg *FuncGen) exec(in ssa.Instruction) {
	e := fg.enc
	st := fg.cur
	switch x := in.(type) {
	case *ssa.DebugRef:
	case *ssa.Alloc:
		el := x.Type().(*types.Pointer).Elem()
		if !x.Heap {
			st.cells[x] = e.zero(el)
			fg.vals[x] = Val{Typ: x.Type(), Loc: &Loc{Kind: lLocal, Alloc: x, Root: el, Typ: el}}
			return
		}
		r := fg.newRef(st)
		fg.ownAllocs = append(fg.ownAllocs, ownAlloc{T: r, typ: x.Type()})
		fg.storeRef(st, r, el, e.zero(el))
		fg.vals[x] = Val{T: r, Typ: x.Type()}
		if ct, _ := fg.structInvFor(x.Type()); ct != nil {
			fg.touch(r, x.Type(), "allocated here")
		}
		if isStruct(el) {
			fg.fieldStored(el, r, "", true, x.Pos())
		}
	case *ssa.FieldAddr:
		fg.execFieldAddr(x)
	case *ssa.Field:
		xv := fg.val(x.X)
		fg.vals[x] = Val{T: fmt.Sprintf("(%s %s)", e.structSel(x.X.Type(), x.Field), xv.T), Typ: x.Type()}
	case *ssa.IndexAddr:
		fg.execIndexAddr(x)
	case *ssa.Index:
		xv := fg.val(x.X)
		iv := fg.term(x.Index)
		iv = fg.toInt(iv, x.Index.Type())
		switch u := x.X.Type().Underlying().(type) {
		case *types.Array:
			fg.oblige("safe:index", fg.srcOr(x.Pos(), "index"), and(e.iop("<=", e.ilit(0), iv, true), e.iop("<", iv, e.ilit(u.Len()), true)), nil, "")
			fg.vals[x] = Val{T: fmt.Sprintf("(select %s %s)", xv.T, iv), Typ: x.Type()}
		default: // string
			fg.oblige("safe:index", fg.srcOr(x.Pos(), "index"), and(e.iop("<=", e.ilit(0), iv, true), e.iop("<", iv, fmt.Sprintf("(slen %s)", xv.T), true)), nil, "")
			fg.vals[x] = Val{T: fmt.Sprintf("(sbyte %s %s)", xv.T, iv), Typ: x.Type()}
		}
	case *ssa.UnOp:
		fg.execUnOp(x)
	case *ssa.BinOp:
		fg.execBinOp(x)
	case *ssa.Store:
		av := fg.val(x.Addr)
		v := fg.term(x.Val)
		el := x.Addr.Type().Underlying().(*types.Pointer).Elem()
		if av.Loc != nil {
			if av.Loc.Kind == lGlobal && len(av.Loc.Path) == 0 && av.Loc.Global != nil && fg.g.cs.GlobalNonNil[av.Loc.Global.Pkg.Pkg.Path()+"."+av.Loc.Global.Name()] {
				fg.oblige("typeinv", "global "+av.Loc.Global.Name()+" is never nil: "+fg.g.srcText(x.Pos(), "any"), fg.nonNilTerm(v, el), nil, "typeinv")
			}
			fg.storeLoc(st, av.Loc, v)
			if av.Loc.Kind == lField && av.Loc.Struct != nil {
				fg.fieldStored(av.Loc.Struct, av.Loc.Ref, av.Loc.Field, false, x.Pos())
				pt := types.NewPointer(av.Loc.Struct)
				if ct, _ := fg.structInvFor(pt); ct != nil {
					fg.touch(av.Loc.Ref, pt, "written here")
				}
			}
		} else {
			fg.nilCheck(av.T, x.Pos(), "store")
			fg.storeRef(st, av.T, el, v)
			if isStruct(el) {
				fg.fieldStored(el, av.T, "", false, x.Pos())
				if ct, _ := fg.structInvFor(x.Addr.Type()); ct != nil {
					fg.touch(av.T, x.Addr.Type(), "assigned here")
				}
			}
		}
	case *ssa.Phi:
		// handled at block entry
	case *ssa.ChangeType:
		xv := fg.val(x.X)
		fg.vals[x] = Val{T: xv.T, Typ: x.Type(), Loc: xv.Loc}
	case *ssa.Convert:
		fg.execConvert(x)
	case *ssa.ChangeInterface:
		fg.vals[x] = Val{T: fg.term(x.X), Typ: x.Type()}
	case *ssa.MakeInterface:
		if _, ok := fg.g.boxNonNil[typeKey(x.X.Type())]; ok {
			fg.oblige("typeinv", "no nil "+types_TypeString(x.X.Type())+" inside an interface: "+fg.g.srcText(x.Pos(), "any"), fg.nonNilTerm(fg.term(x.X), x.X.Type()), nil, "typeinv")
		}
		fg.vals[x] = Val{T: fg.box(fg.term(x.X), x.X.Type()), Typ: x.Type()}
	case *ssa.TypeAssert:
		fg.execTypeAssert(x)
	case *ssa.Extract:
		tv := fg.val(x.Tuple)
		if x.Index < len(tv.Tup) {
			fg.vals[x] = tv.Tup[x.Index]
		} else {
			fg.vals[x] = fg.freshVal("extract", x.Type())
		}
	case *ssa.Slice:
		fg.execSlice(x)
	case *ssa.MakeSlice:
		ln := fg.toInt(fg.term(x.Len), x.Len.Type())
		cp := fg.toInt(fg.term(x.Cap), x.Cap.Type())
		el := x.Type().Underlying().(*types.Slice).Elem()
		sz := fg.g.sizes.Sizeof(el)
		if sz <= 0 {
			sz = 1
		}
		fg.oblige("safe:makeslice", fg.g.srcText(x.Pos(), "call"), and(e.iop("<=", e.ilit(0), ln, true), e.iop("<=", ln, cp, true), e.iop("<=", cp, e.ilit(maxAlloc/sz), true)), nil, "")
		r := fg.newRef(st)
		c := fg.elemComp(el)
		fg.set(st, c, fmt.Sprintf("(store %s %s ((as const (Array %s %s)) %s))", fg.get(st, c), r, e.INT(), e.sortOf(el), e.zero(el)))
		fg.vals[x] = Val{T: fg.named("mk", "Slice", fmt.Sprintf("(mkslice %s %s %s %s)", r, e.ilit(0), ln, cp)), Typ: x.Type()}
	case *ssa.MakeMap:
		m := x.Type().Underlying().(*types.Map)
		d, _ := fg.mapComps(m)
		r := fg.newRef(st)
		fg.set(st, d, fmt.Sprintf("(store %s %s ((as const (Array %s Bool)) false))", fg.get(st, d), r, e.sortOf(m.Key())))
		fg.assume(fmt.Sprintf("(= (%s (select %s %s)) %s)", fg.cardFn(m), fg.get(st, d), r, e.ilit(0)))
		fg.vals[x] = Val{T: r, Typ: x.Type()}
	case *ssa.MapUpdate:
		m := x.Map.Type().Underlying().(*types.Map)
		mv := fg.term(x.Map)
		k := fg.term(x.Key)
		v := fg.term(x.Value)
		fg.oblige("safe:mapwrite", fg.srcOr(x.Pos(), "index"), fmt.Sprintf("(not (= %s 0))", mv), nil, "")
		fg.mapStore(st, m, mv, k, v)
	case *ssa.Lookup:
		fg.execLookup(x)
	case *ssa.Range:
		name := fg.iterCell(x)
		if isString(x.X.Type()) {
			fg.ghostSet(st, name, e.INT(), e.ilit(0))
		} else {
			// map iteration: ghost set of keys already visited
			m := x.X.Type().Underlying().(*types.Map)
			srt := fmt.Sprintf("(Array %s Bool)", e.sortOf(m.Key()))
			fg.ghostSet(st, name, srt, fmt.Sprintf("((as const %s) false)", srt))
		}
		fg.vals[x] = Val{T: "0", Typ: x.Type()}
	case *ssa.Next:
		fg.execNext(x)
	case *ssa.Call:
		fg.execCall(x, x.Common(), x)
	case *ssa.Defer:
		var args []Val
		for _, a := range x.Call.Args {
			args = append(args, fg.val(a))
		}
		if x.Call.IsInvoke() || x.Call.StaticCallee() == nil {
			args = append([]Val{fg.val(x.Call.Value)}, args...)
		}
		st.defer_[x] = "true"
		st.dargs[x] = args
	case *ssa.RunDefers:
		fg.execRunDefers()
	case *ssa.Return:
		fg.execReturn(x)
	case *ssa.Panic:
		txt := fg.g.srcText(x.Pos(), "call")
		fg.oblige("safe:panic", txt, "false", nil, "")
	case *ssa.If, *ssa.Jump:
	case *ssa.MakeClosure:
		r := fg.newRef(st)
		fg.vals[x] = Val{T: r, Typ: x.Type()}
		fg.closures[x] = x
	case *ssa.Go, *ssa.Send, *ssa.Select, *ssa.MakeChan:
		fg.taint("concurrency instruction %T", in)
		if v, ok := in.(ssa.Value); ok {
			fg.vals[v] = fg.freshVal("chan", v.Type())
		}
	default:
		fg.taint("instruction %T (%s)", in, in)
		if v, ok := in.(ssa.Value); ok {
			fg.vals[v] = fg.freshVal("unsupp", v.Type())
		}
	}
	// pointers obtained here: object invariants
	if v, ok := in.(ssa.Value); ok {
		if _, isCall := in.(*ssa.Call); !isCall {
			if val, ok := fg.vals[v]; ok {
				if val.Loc == nil && val.T != "" && isPtr(val.Typ) {
					if _, isAlloc := in.(*ssa.Alloc); !isAlloc {
						fg.assumeObjInv(val, fg.cur, false)
					}
				}
				for _, tv := range val.Tup {
					if tv.T != "" && tv.Typ != nil && isPtr(tv.Typ) {
						fg.assumeObjInv(tv, fg.cur, false)
					}
				}
			}
		}
	}
}

// toInt converts an integer term of Go type t to the 64-bit int sort.
func (fg *FuncGen) toInt(term string, t types.Type) string {
	return fg.convInt(term, t, types.Typ[types.Int])
}

func (fg *FuncGen) convInt(term string, from, to types.Type) string {
	fb, fs, ok1 := intInfo(from)
	tb, ts, ok2 := intInfo(to)
	if !ok1 || !ok2 {
		return term
	}
	if fg.enc.bv {
		switch {
		case fb == tb:
			return term
		case fb > tb:
			return fmt.Sprintf("((_ extract %d 0) %s)", tb-1, term)
		case fs:
			return fmt.Sprintf("((_ sign_extend %d) %s)", tb-fb, term)
		default:
			return fmt.Sprintf("((_ zero_extend %d) %s)", tb-fb, term)
		}
	}
	// math mode: identity when the source range is inside the target range
	flo, fhi := minMax(fb, fs)
	tlo, thi := minMax(tb, ts)
	if flo.Cmp(tlo) >= 0 && fhi.Cmp(thi) <= 0 {
		return term
	}
	// wrap
	m := fg.enc.intLit(new(bigInt).Lsh(bigOne, uint(tb)), 64)
	if ts {
		half := fg.enc.intLit(new(bigInt).Lsh(bigOne, uint(tb-1)), 64)
		return fmt.Sprintf("(- (mod (+ %s %s) %s) %s)", term, half, m, half)
	}
	return fmt.Sprintf("(mod %s %s)", term, m)
}

func (fg *FuncGen) execFieldAddr(x *ssa.FieldAddr) {
	xv := fg.val(x.X)
	stT := x.X.Type().Underlying().(*types.Pointer).Elem()
	u := stT.Underlying().(*types.Struct)
	ft := u.Field(x.Field).Type()
	if xv.Loc != nil {
		l := *xv.Loc
		l.Path = append(append([]pathElem{}, l.Path...), pathElem{field: x.Field, cont: stT})
		l.Typ = ft
		fg.vals[x] = Val{Typ: x.Type(), Loc: &l}
		return
	}
	fg.nilCheck(xv.T, x.Pos(), "field "+u.Field(x.Field).Name())
	if isStruct(ft) || isArray(ft) {
		fg.vals[x] = Val{T: fg.embRef(stT, x.Field, xv.T), Typ: x.Type()}
		return
	}
	c := fg.fieldComp(stT, x.Field)
	fg.vals[x] = Val{Typ: x.Type(), Loc: &Loc{Kind: lField, Comp: c.Name, Ref: xv.T, Root: ft, Typ: ft, Struct: stT, Field: u.Field(x.Field).Name()}}
}

func (fg *FuncGen) execIndexAddr(x *ssa.IndexAddr) {
	e := fg.enc
	xv := fg.val(x.X)
	iv := fg.toInt(fg.term(x.Index), x.Index.Type())
	switch u := x.X.Type().Underlying().(type) {
	case *types.Slice:
		el := u.Elem()
		fg.oblige("safe:index", fg.srcOr(x.Pos(), "index"), and(e.iop("<=", e.ilit(0), iv, true), e.iop("<", iv, fmt.Sprintf("(sllen %s)", xv.T), true)), nil, "")
		c := fg.elemComp(el)
		idx := e.at(fmt.Sprintf("(soff %s)", xv.T), iv, true)
		fg.vals[x] = Val{Typ: x.Type(), Loc: &Loc{Kind: lElem, Comp: c.Name, Ref: fmt.Sprintf("(sbase %s)", xv.T), Idx: idx, Root: el, Typ: el}}
	case *types.Pointer:
		arr := u.Elem().Underlying().(*types.Array)
		fg.oblige("safe:index", fg.srcOr(x.Pos(), "index"), and(e.iop("<=", e.ilit(0), iv, true), e.iop("<", iv, e.ilit(arr.Len()), true)), nil, "")
		if xv.Loc != nil {
			l := *xv.Loc
			l.Path = append(append([]pathElem{}, l.Path...), pathElem{field: -1, idx: iv, cont: u.Elem()})
			l.Typ = arr.Elem()
			fg.vals[x] = Val{Typ: x.Type(), Loc: &l}
			return
		}
		fg.nilCheck(xv.T, x.Pos(), "array")
		c := fg.elemComp(arr.Elem())
		fg.vals[x] = Val{Typ: x.Type(), Loc: &Loc{Kind: lElem, Comp: c.Name, Ref: xv.T, Idx: iv, Root: arr.Elem(), Typ: arr.Elem()}}
	default:
		fg.taint("IndexAddr on %s", x.X.Type())
		fg.vals[x] = fg.freshVal("ia", x.Type())
	}
}

func (fg *FuncGen) execUnOp(x *ssa.UnOp) {
	e := fg.enc
	switch x.Op {
	case token.MUL: // load
		av := fg.val(x.X)
		el := x.X.Type().Underlying().(*types.Pointer).Elem()
		var t string
		if av.Loc != nil {
			t = fg.loadLoc(fg.cur, av.Loc)
		} else {
			fg.nilCheck(av.T, x.Pos(), "load")
			t = fg.loadRef(fg.cur, av.T, el)
		}
		t = fg.named("ld_"+x.Name(), e.sortOf(el), t)
		if av.Loc == nil || av.Loc.Kind != lLocal {
			fg.typeFacts(t, el)
		}
		if av.Loc != nil && av.Loc.Kind == lGlobal && len(av.Loc.Path) == 0 && av.Loc.Global != nil {
			if fg.g.cs.GlobalNonNil[av.Loc.Global.Pkg.Pkg.Path()+"."+av.Loc.Global.Name()] {
				fg.assume(fg.nonNilTerm(t, el))
				fg.note("global invariant assumed: %s is never nil", av.Loc.Global.Name())
			}
		}
		fg.vals[x] = Val{T: t, Typ: x.Type()}
	case token.NOT:
		fg.vals[x] = Val{T: not(fg.term(x.X)), Typ: x.Type()}
	case token.SUB:
		v := fg.term(x.X)
		if isFloat(x.Type()) {
			fg.vals[x] = Val{T: fmt.Sprintf("(fp.neg %s)", v), Typ: x.Type()}
			return
		}
		if e.bv {
			fg.vals[x] = Val{T: fmt.Sprintf("(bvneg %s)", v), Typ: x.Type()}
		} else {
			r := fmt.Sprintf("(- %s)", v)
			fg.overflowCheck(r, x.Type(), x.Pos())
			fg.vals[x] = Val{T: r, Typ: x.Type()}
		}
	case token.XOR:
		v := fg.term(x.X)
		if e.bv {
			fg.vals[x] = Val{T: fmt.Sprintf("(bvnot %s)", v), Typ: x.Type()}
		} else {
			fg.vals[x] = Val{T: fmt.Sprintf("(- (- %s) 1)", v), Typ: x.Type()}
		}
	default:
		fg.taint("unary %s", x.Op)
		fg.vals[x] = fg.freshVal("un", x.Type())
	}
}

func (fg *FuncGen) overflowCheck(term string, t types.Type, pos token.Pos) {
	if fg.enc.bv || fg.g.noOverflowObl {
		return
	}
	rf := fg.enc.rangeFact(term, t)
	if rf == "" {
		return
	}
	txt := fg.g.srcText(pos, "any")
	fg.oblige("safe:overflow", txt, rf, nil, "")
}

func (fg *FuncGen) execBinOp(x *ssa.BinOp) {
	e := fg.enc
	a, b := fg.term(x.X), fg.term(x.Y)
	t := x.X.Type()
	op := x.Op.String()
	res := ""
	switch {
	case isString(t):
		switch op {
		case "==":
			res = e.strEq(a, b)
		case "!=":
			res = not(e.strEq(a, b))
		case "+":
			res = fg.strConcat(a, b)
		default:
			e.declFun("strlt", []string{"Str", "Str"}, "Bool")
			lt := func(p, q string) string { return fmt.Sprintf("(strlt %s %s)", p, q) }
			switch op {
			case "<":
				res = lt(a, b)
			case ">":
				res = lt(b, a)
			case "<=":
				res = not(lt(b, a))
			case ">=":
				res = not(lt(a, b))
			}
		}
	case isFloat(t):
		m := map[string]string{"+": "fp.add RNE", "-": "fp.sub RNE", "*": "fp.mul RNE", "/": "fp.div RNE", "<": "fp.lt", "<=": "fp.leq", ">": "fp.gt", ">=": "fp.geq", "==": "fp.eq"}
		if f, ok := m[op]; ok {
			res = fmt.Sprintf("(%s %s %s)", f, a, b)
		} else if op == "!=" {
			res = fmt.Sprintf("(not (fp.eq %s %s))", a, b)
		}
	case isInt(t):
		_, signed, _ := intInfo(t)
		switch op {
		case "==":
			res = fmt.Sprintf("(= %s %s)", a, b)
		case "!=":
			res = fmt.Sprintf("(not (= %s %s))", a, b)
		case "/", "%":
			fg.oblige("safe:div", fg.g.srcText(x.Pos(), "binary"), fmt.Sprintf("(not (= %s %s))", b, e.ilitT(0, t)), nil, "")
			res = e.iop(op, a, b, signed)
		case "<<", ">>":
			bb := fg.convInt(b, x.Y.Type(), t)
			res = e.iop(op, a, bb, signed)
		case "&^":
			if e.bv {
				res = fmt.Sprintf("(bvand %s (bvnot %s))", a, b)
			}
		default:
			res = e.iop(op, a, b, signed)
		}
		if res != "" && (op == "+" || op == "-" || op == "*") {
			fg.overflowCheck(res, x.Type(), x.Pos())
		}
	case isBool(t):
		switch op {
		case "==":
			res = fmt.Sprintf("(= %s %s)", a, b)
		case "!=":
			res = fmt.Sprintf("(not (= %s %s))", a, b)
		}
	case isIface(t):
		// comparing interface values panics when the dynamic types are identical and not comparable
		fg.ifaceCmpCheck(a, b, x.Pos())
		if op == "==" {
			res = fmt.Sprintf("(= %s %s)", a, b)
		} else {
			res = fmt.Sprintf("(not (= %s %s))", a, b)
		}
	default:
		// pointers, maps, slices (only against nil), funcs, chans, structs, arrays
		if op == "==" {
			res = fmt.Sprintf("(= %s %s)", a, b)
		} else if op == "!=" {
			res = fmt.Sprintf("(not (= %s %s))", a, b)
		}
		if isSlice(t) {
			// s == nil  <=>  base == 0
			other := a
			if strings.HasPrefix(a, "(mkslice 0 ") {
				other = b
			}
			eq := fmt.Sprintf("(= (sbase %s) 0)", other)
			if op == "==" {
				res = eq
			} else {
				res = not(eq)
			}
		}
	}
	if res == "" {
		fg.taint("binary %s on %s", op, t)
		fg.vals[x] = fg.freshVal("bin", x.Type())
		return
	}
	fg.vals[x] = Val{T: fg.named("b_"+x.Name(), e.sortOf(x.Type()), res), Typ: x.Type()}
}

func (fg *FuncGen) ifaceCmpCheck(a, b string, pos token.Pos) {
	if a == "anil" || b == "anil" {
		return
	}
	fg.enc.needAny()
	// dynamic types slice / map / func are not comparable; maps and funcs are boxed as aref with their type id
	var bad []string
	bad = append(bad, fmt.Sprintf("((_ is aslice) %s)", a))
	for k, id := range fg.enc.typeIDs {
		if strings.HasPrefix(k, "map[") || strings.HasPrefix(k, "func(") {
			bad = append(bad, fmt.Sprintf("(and ((_ is aref) %s) (= (aref_t %s) %d))", a, a, id))
		}
	}
	goal := not(and(fmt.Sprintf("(= (atag %s) (atag %s))", a, b), or(bad...)))
	fg.oblige("safe:ifacecmp", fg.g.srcText(pos, "binary"), goal, nil, "")
}

func (fg *FuncGen) strConcat(a, b string) string {
	e := fg.enc
	e.declFun("sconcat", []string{"Str", "Str"}, "Str")
	t := fmt.Sprintf("(sconcat %s %s)", a, b)
	n := fg.named("cat", "Str", t)
	fg.assume(fmt.Sprintf("(= (slen %s) %s)", n, e.iop("+", "(slen "+a+")", "(slen "+b+")", true)))
	fg.g.needConcatAxiom(e)
	return n
}

func (fg *FuncGen) execConvert(x *ssa.Convert) {
	e := fg.enc
	from, to := x.X.Type(), x.Type()
	v := fg.term(x.X)
	switch {
	case isInt(from) && isInt(to):
		fg.vals[x] = Val{T: fg.convInt(v, from, to), Typ: to}
	case isInt(from) && isFloat(to):
		fg.vals[x] = Val{T: fg.intToFloat(v, from, to), Typ: to}
	case isFloat(from) && isInt(to):
		bits, signed, _ := intInfo(to)
		if e.bv {
			f := "fp.to_sbv"
			if !signed {
				f = "fp.to_ubv"
			}
			fg.vals[x] = Val{T: fmt.Sprintf("((_ %s %d) RTZ %s)", f, bits, v), Typ: to}
		} else {
			fg.vals[x] = Val{T: fg.f2iMath(v, to), Typ: to}
		}
	case isFloat(from) && isFloat(to):
		if e.sortOf(from) == e.sortOf(to) {
			fg.vals[x] = Val{T: v, Typ: to}
		} else if e.sortOf(to) == F64 {
			fg.vals[x] = Val{T: fmt.Sprintf("((_ to_fp 11 53) RNE %s)", v), Typ: to}
		} else {
			fg.vals[x] = Val{T: fmt.Sprintf("((_ to_fp 8 24) RNE %s)", v), Typ: to}
		}
	case isString(to) && isInt(from):
		// string(rune)
		fg.vals[x] = Val{T: fg.runeToString(fg.convInt(v, from, types.Typ[types.Int32])), Typ: to}
	case isString(to) && isString(from):
		fg.vals[x] = Val{T: v, Typ: to}
	case isString(to) && isSlice(from):
		// string(bytes): fresh string with the same length; bytes related by an uninterpreted copy
		r := fg.freshVal("str", to)
		fg.assume(fmt.Sprintf("(= (slen %s) (sllen %s))", r.T, v))
		fg.bytesOfString(r.T, v, fg.cur)
		fg.vals[x] = r
	case isSlice(to) && isString(from):
		el := to.Underlying().(*types.Slice).Elem()
		if b, ok := el.Underlying().(*types.Basic); ok && b.Kind() == types.Uint8 {
			base := fg.newRef(fg.cur)
			sl := fg.named("bs", "Slice", fmt.Sprintf("(mkslice %s %s (slen %s) (slen %s))", base, e.ilit(0), v, v))
			c := fg.elemComp(el)
			fg.havocRow(fg.cur, c, base)
			fg.bytesOfString(v, sl, fg.cur)
			fg.vals[x] = Val{T: sl, Typ: to}
		} else {
			fg.note("[]rune(string): fresh slice, contents unconstrained, 0 < len <= len(s) for a non-empty string")
			r := fg.freshVal("runes", to)
			fg.assume(and(e.iop("<=", "(sllen "+r.T+")", "(slen "+v+")", true),
				implies(e.iop("<", e.ilit(0), "(slen "+v+")", true), e.iop("<", e.ilit(0), "(sllen "+r.T+")", true))))
			fg.vals[x] = r
		}
	case isPtr(from) || isPtr(to):
		fg.vals[x] = Val{T: v, Typ: to}
	default:
		fg.taint("conversion %s -> %s", from, to)
		fg.vals[x] = fg.freshVal("conv", to)
	}
}

// bytesOfString: forall i in [0,len): E_uint8[base][off+i] == sbyte(s,i)
func (fg *FuncGen) bytesOfString(s, sl string, st *State) {
	e := fg.enc
	c := fg.elemComp(types.Typ[types.Uint8])
	I := e.INT()
	fg.assume(fmt.Sprintf("(forall ((i %s)) (! (=> (and %s %s) (= (select (select %s (sbase %s)) %s) (sbyte %s i))) :pattern ((sbyte %s i))))",
		I, e.iop("<=", e.ilit(0), "i", true), e.iop("<", "i", "(slen "+s+")", true), fg.get(st, c), sl, e.at("(soff "+sl+")", "i", false), s, s))
	e.usesQuant = true
}

func (fg *FuncGen) havocRow(st *State, c *Comp, base string) {
	row := fg.enc.declConst(fg.enc.freshName("row"), c.Sort[len("(Array Int "):len(c.Sort)-1])
	fg.set(st, c, fmt.Sprintf("(store %s %s %s)", fg.get(st, c), base, row))
}

func (fg *FuncGen) intToFloat(v string, from, to types.Type) string {
	e := fg.enc
	eb, sb := 11, 53
	if e.sortOf(to) == F32 {
		eb, sb = 8, 24
	}
	_, signed, _ := intInfo(from)
	if e.bv {
		if signed {
			return fmt.Sprintf("((_ to_fp %d %d) RNE %s)", eb, sb, v)
		}
		return fmt.Sprintf("((_ to_fp_unsigned %d %d) RNE %s)", eb, sb, v)
	}
	return fmt.Sprintf("((_ to_fp %d %d) RNE (to_real %s))", eb, sb, v)
}

func (fg *FuncGen) runeToString(r32 string) string {
	e := fg.enc
	e.declFun("sfromrune", []string{e.intSort(32)}, "Str")
	t := fg.named("rs", "Str", fmt.Sprintf("(sfromrune %s)", r32))
	z := e.intLit(bigZero, 32)
	lim := e.intLit(bigFrom(0x80), 32)
	ascii := and(e.iop("<=", z, r32, true), e.iop("<", r32, lim, true))
	var b0 string
	if e.bv {
		b0 = fmt.Sprintf("((_ extract 7 0) %s)", r32)
	} else {
		b0 = r32
	}
	fg.assume(and(
		implies(ascii, and(fmt.Sprintf("(= (slen %s) %s)", t, e.ilit(1)), fmt.Sprintf("(= (sbyte %s %s) %s)", t, e.ilit(0), b0))),
		implies(not(ascii), and(e.iop("<=", e.ilit(2), "(slen "+t+")", true), e.iop("<=", "(slen "+t+")", e.ilit(4), true),
			e.iop(">=", fmt.Sprintf("(sbyte %s %s)", t, e.ilit(0)), e.intLit(bigFrom(0x80), 8), false)))))
	return t
}

// box wraps a value of static type t into Any.
func (fg *FuncGen) box(term string, t types.Type) string {
	e := fg.enc
	e.needAny()
	if isIface(t) {
		return term
	}
	id := e.typeID(t)
	switch u := t.Underlying().(type) {
	case *types.Basic:
		switch {
		case isBool(u):
			return fmt.Sprintf("(abool %d %s)", id, term)
		case isInt(u):
			return fmt.Sprintf("(aint %d %s)", id, fg.convIntWide(term, u))
		case isFloat(u):
			if e.sortOf(u) == F32 {
				term = fmt.Sprintf("((_ to_fp 11 53) RNE %s)", term)
			}
			return fmt.Sprintf("(aflt %d %s)", id, term)
		case isString(u):
			return fmt.Sprintf("(astr %d %s)", id, term)
		}
		if u.Kind() == types.UntypedNil {
			return "anil"
		}
	case *types.Slice:
		return fmt.Sprintf("(aslice %d %s)", id, term)
	case *types.Pointer, *types.Map, *types.Signature, *types.Chan:
		return fmt.Sprintf("(aref %d %s)", id, term)
	case *types.Struct, *types.Array:
		f := "opq_" + shortType(t)
		e.declFun(f, []string{e.sortOf(t)}, "Int")
		return fmt.Sprintf("(aopq %d (%s %s))", id, q(f), term)
	}
	fg.taint("boxing of %s", t)
	return "anil"
}

// convIntWide converts any integer to the 64-bit payload of aint (value preserving).
func (fg *FuncGen) convIntWide(term string, t types.Type) string {
	bits, signed, _ := intInfo(t)
	if !fg.enc.bv || bits == 64 {
		return term
	}
	if signed {
		return fmt.Sprintf("((_ sign_extend %d) %s)", 64-bits, term)
	}
	return fmt.Sprintf("((_ zero_extend %d) %s)", 64-bits, term)
}

// unbox: (ok, value) of asserting Any term to concrete type t
func (fg *FuncGen) unbox(term string, t types.Type) (ok, val string) {
	e := fg.enc
	e.needAny()
	id := e.typeID(t)
	switch u := t.Underlying().(type) {
	case *types.Basic:
		switch {
		case isBool(u):
			return fmt.Sprintf("(and ((_ is abool) %s) (= (abool_t %s) %d))", term, term, id), fmt.Sprintf("(abool_v %s)", term)
		case isInt(u):
			v := fmt.Sprintf("(aint_v %s)", term)
			bits, _, _ := intInfo(u)
			if e.bv && bits < 64 {
				v = fmt.Sprintf("((_ extract %d 0) %s)", bits-1, v)
			}
			return fmt.Sprintf("(and ((_ is aint) %s) (= (aint_t %s) %d))", term, term, id), v
		case isFloat(u):
			v := fmt.Sprintf("(aflt_v %s)", term)
			if e.sortOf(u) == F32 {
				v = fmt.Sprintf("((_ to_fp 8 24) RNE %s)", v)
			}
			return fmt.Sprintf("(and ((_ is aflt) %s) (= (aflt_t %s) %d))", term, term, id), v
		case isString(u):
			return fmt.Sprintf("(and ((_ is astr) %s) (= (astr_t %s) %d))", term, term, id), fmt.Sprintf("(astr_v %s)", term)
		}
	case *types.Slice:
		return fmt.Sprintf("(and ((_ is aslice) %s) (= (aslice_t %s) %d))", term, term, id), fmt.Sprintf("(aslice_v %s)", term)
	case *types.Pointer, *types.Map, *types.Signature, *types.Chan:
		return fmt.Sprintf("(and ((_ is aref) %s) (= (aref_t %s) %d))", term, term, id), fmt.Sprintf("(aref_v %s)", term)
	case *types.Struct, *types.Array:
		f := "unopq_" + shortType(t)
		e.declFun(f, []string{"Int"}, e.sortOf(t))
		return fmt.Sprintf("(and ((_ is aopq) %s) (= (aopq_t %s) %d))", term, term, id), fmt.Sprintf("(%s (aopq_v %s))", q(f), term)
	}
	return "false", fg.enc.zero(t)
}

func (fg *FuncGen) execTypeAssert(x *ssa.TypeAssert) {
	e := fg.enc
	v := fg.term(x.X)
	var ok, val string
	if isIface(x.AssertedType) {
		// interface-to-interface: succeeds iff non-nil and the dynamic type implements it
		impl := fg.implementsTerm(v, x.AssertedType)
		ok, val = impl, v
	} else {
		ok, val = fg.unbox(v, x.AssertedType)
	}
	okN := fg.namedBool("ta_ok", ok)
	if _, has := fg.g.boxNonNil[typeKey(x.AssertedType)]; has {
		fg.assume(implies(okN, fg.nonNilTerm(val, x.AssertedType)))
		fg.note("type invariant assumed: no nil %s inside an interface", types_TypeString(x.AssertedType))
	}
	if x.CommaOk {
		res := fg.named("ta", e.sortOf(x.AssertedType), ite(okN, val, e.zero(x.AssertedType)))
		if !isIface(x.AssertedType) {
			fg.assumeHere(implies(okN, fg.typeFactsTerm(res, x.AssertedType, fg.cur)))
		}
		tup := x.Type().(*types.Tuple)
		fg.vals[x] = Val{Typ: tup, Tup: []Val{{T: res, Typ: x.AssertedType}, {T: okN, Typ: types.Typ[types.Bool]}}}
		return
	}
	fg.oblige("safe:assert", fg.g.srcText(x.Pos(), "assert"), okN, nil, "")
	res := fg.named("ta", e.sortOf(x.AssertedType), val)
	if !isIface(x.AssertedType) {
		if f := fg.typeFactsTerm(res, x.AssertedType, fg.cur); f != "" {
			fg.assumeHere(f)
		}
	}
	fg.vals[x] = Val{T: res, Typ: x.AssertedType}
}

// implementsTerm: Bool term "the dynamic type of v implements interface it"
func (fg *FuncGen) implementsTerm(v string, it types.Type) string {
	iface := it.Underlying().(*types.Interface)
	if iface.NumMethods() == 0 {
		return fmt.Sprintf("(not (= %s anil))", v)
	}
	e := fg.enc
	var yes []string
	for k, id := range e.typeIDs {
		t := fg.g.typeByKey[k]
		if t == nil {
			continue
		}
		if types.Implements(t, iface) {
			yes = append(yes, fmt.Sprintf("(= (atag %s) %d)", v, id))
		}
	}
	// unknown dynamic types: undetermined
	f := "implements_" + shortType(it)
	e.declFun(f, []string{"Int"}, "Bool")
	return and(fmt.Sprintf("(not (= %s anil))", v), or(append(yes, fmt.Sprintf("(%s (atag %s))", q(f), v))...))
}

func (fg *FuncGen) execSlice(x *ssa.Slice) {
	e := fg.enc
	xv := fg.val(x.X)
	z := e.ilit(0)
	get := func(v ssa.Value, def string) string {
		if v == nil {
			return def
		}
		return fg.toInt(fg.term(v), v.Type())
	}
	switch u := x.X.Type().Underlying().(type) {
	case *types.Basic: // string
		ln := fmt.Sprintf("(slen %s)", xv.T)
		lo, hi := get(x.Low, z), get(x.High, ln)
		fg.oblige("safe:slice", fg.srcOr(x.Pos(), "slice"), and(e.iop("<=", z, lo, true), e.iop("<=", lo, hi, true), e.iop("<=", hi, ln, true)), nil, "")
		if x.Low == nil && x.High == nil {
			fg.vals[x] = Val{T: xv.T, Typ: x.Type()}
			return
		}
		fg.vals[x] = Val{T: fg.substr(xv.T, lo, hi), Typ: x.Type()}
	case *types.Slice:
		ln, cp := fmt.Sprintf("(sllen %s)", xv.T), fmt.Sprintf("(slcap %s)", xv.T)
		lo, hi := get(x.Low, z), get(x.High, ln)
		mx := get(x.Max, cp)
		fg.oblige("safe:slice", fg.srcOr(x.Pos(), "slice"), and(e.iop("<=", z, lo, true), e.iop("<=", lo, hi, true), e.iop("<=", hi, mx, true), e.iop("<=", mx, cp, true)), nil, "")
		t := fmt.Sprintf("(mkslice (sbase %s) %s %s %s)", xv.T, e.iop("+", "(soff "+xv.T+")", lo, true), e.iop("-", hi, lo, true), e.iop("-", mx, lo, true))
		fg.vals[x] = Val{T: fg.named("sl", "Slice", t), Typ: x.Type()}
	case *types.Pointer:
		arr := u.Elem().Underlying().(*types.Array)
		n := e.ilit(arr.Len())
		lo, hi := get(x.Low, z), get(x.High, n)
		mx := get(x.Max, n)
		fg.oblige("safe:slice", fg.srcOr(x.Pos(), "slice"), and(e.iop("<=", z, lo, true), e.iop("<=", lo, hi, true), e.iop("<=", hi, mx, true), e.iop("<=", mx, n, true)), nil, "")
		if xv.Loc != nil {
			fg.taint("slicing a local array")
			fg.vals[x] = fg.freshVal("sl", x.Type())
			return
		}
		fg.nilCheck(xv.T, x.Pos(), "array")
		t := fmt.Sprintf("(mkslice %s %s %s %s)", xv.T, lo, e.iop("-", hi, lo, true), e.iop("-", mx, lo, true))
		nm := fg.named("sl", "Slice", t)
		if x.Low == nil && x.High == nil {
			fg.constLen[nm] = int(arr.Len())
		}
		fg.vals[x] = Val{T: nm, Typ: x.Type()}
	}
}

func (fg *FuncGen) substr(s, lo, hi string) string {
	e := fg.enc
	I := e.INT()
	e.declFun("ssub", []string{"Str", I, I}, "Str")
	t := fg.named("sub", "Str", fmt.Sprintf("(ssub %s %s %s)", s, lo, hi))
	fg.assumeHere(fmt.Sprintf("(= (slen %s) %s)", t, e.iop("-", hi, lo, true)))
	fg.g.needSubstrAxiom(e)
	return t
}

func (fg *FuncGen) cardFn(m *types.Map) string {
	e := fg.enc
	f := "card_" + shortType(m.Key())
	e.declFun(f, []string{fmt.Sprintf("(Array %s Bool)", e.sortOf(m.Key()))}, e.INT())
	return q(f)
}

func (fg *FuncGen) mapLen(st *State, m *types.Map, ref string) string {
	e := fg.enc
	d, _ := fg.mapComps(m)
	t := fmt.Sprintf("(%s (select %s %s))", fg.cardFn(m), fg.get(st, d), ref)
	fg.assume(e.iop("<=", e.ilit(0), t, true))
	return t
}

func (fg *FuncGen) mapStore(st *State, m *types.Map, ref, k, v string) {
	e := fg.enc
	d, vc := fg.mapComps(m)
	dh, vh := fg.get(st, d), fg.get(st, vc)
	oldDom := fmt.Sprintf("(select %s %s)", dh, ref)
	newDom := fg.named("dom", fmt.Sprintf("(Array %s Bool)", e.sortOf(m.Key())), fmt.Sprintf("(store %s %s true)", oldDom, k))
	fg.set(st, d, fmt.Sprintf("(store %s %s %s)", dh, ref, newDom))
	fg.set(st, vc, fmt.Sprintf("(store %s %s (store (select %s %s) %s %s))", vh, ref, vh, ref, k, v))
	card := fg.cardFn(m)
	fg.assume(fmt.Sprintf("(= (%s %s) %s)", card, newDom, ite(fmt.Sprintf("(select %s %s)", oldDom, k), fmt.Sprintf("(%s %s)", card, oldDom), e.iop("+", fmt.Sprintf("(%s %s)", card, oldDom), e.ilit(1), true))))
	fg.assume(e.iop("<=", e.ilit(0), fmt.Sprintf("(%s %s)", card, oldDom), true))
}

func (fg *FuncGen) mapDelete(st *State, m *types.Map, ref, k string) {
	e := fg.enc
	d, _ := fg.mapComps(m)
	dh := fg.get(st, d)
	oldDom := fmt.Sprintf("(select %s %s)", dh, ref)
	newDom := fg.named("dom", fmt.Sprintf("(Array %s Bool)", e.sortOf(m.Key())), fmt.Sprintf("(store %s %s false)", oldDom, k))
	// deleting from a nil map is a no-op
	fg.set(st, d, ite(fmt.Sprintf("(= %s 0)", ref), dh, fmt.Sprintf("(store %s %s %s)", dh, ref, newDom)))
	card := fg.cardFn(m)
	fg.assume(fmt.Sprintf("(= (%s %s) %s)", card, newDom, ite(fmt.Sprintf("(select %s %s)", oldDom, k), e.iop("-", fmt.Sprintf("(%s %s)", card, oldDom), e.ilit(1), true), fmt.Sprintf("(%s %s)", card, oldDom))))
	fg.assume(e.iop("<=", e.ilit(0), fmt.Sprintf("(%s %s)", card, newDom), true))
}

func (fg *FuncGen) execLookup(x *ssa.Lookup) {
	e := fg.enc
	xv := fg.term(x.X)
	k := fg.term(x.Index)
	if isString(x.X.Type()) {
		iv := fg.toInt(k, x.Index.Type())
		fg.oblige("safe:index", fg.srcOr(x.Pos(), "index"), and(e.iop("<=", e.ilit(0), iv, true), e.iop("<", iv, fmt.Sprintf("(slen %s)", xv), true)), nil, "")
		fg.vals[x] = Val{T: fmt.Sprintf("(sbyte %s %s)", xv, iv), Typ: x.Type()}
		return
	}
	m := x.X.Type().Underlying().(*types.Map)
	d, vc := fg.mapComps(m)
	// a nil map has an empty domain
	dom := fmt.Sprintf("(and (not (= %s 0)) (select (select %s %s) %s))", xv, fg.get(fg.cur, d), xv, k)
	domN := fg.namedBool("has", dom)
	// a map that holds a key is not empty
	fg.assume(implies(domN, e.iop("<", e.ilit(0), fmt.Sprintf("(%s (select %s %s))", fg.cardFn(m), fg.get(fg.cur, d), xv), true)))
	val := fg.named("mv", e.sortOf(m.Elem()), ite(domN, fmt.Sprintf("(select (select %s %s) %s)", fg.get(fg.cur, vc), xv, k), e.zero(m.Elem())))
	if f := fg.typeFactsTerm(val, m.Elem(), fg.cur); f != "" {
		fg.assume(f)
	}
	if _, ok := fg.g.mapNonNil[typeKey(x.X.Type())]; ok {
		fg.assume(implies(domN, fg.nonNilTerm(val, m.Elem())))
		fg.note("type invariant assumed: values of %s are non-nil", types_TypeString(x.X.Type()))
	}
	if x.CommaOk {
		fg.vals[x] = Val{Typ: x.Type(), Tup: []Val{{T: val, Typ: m.Elem()}, {T: domN, Typ: types.Typ[types.Bool]}}}
	} else {
		fg.vals[x] = Val{T: val, Typ: x.Type()}
	}
}

func (fg *FuncGen) execNext(x *ssa.Next) {
	e := fg.enc
	r, ok := x.Iter.(*ssa.Range)
	if !ok {
		fg.taint("next on non-range iterator")
		fg.vals[x] = fg.freshVal("next", x.Type())
		return
	}
	cell := fg.iterCell(r)
	st := fg.cur
	tup := x.Type().(*types.Tuple)
	if x.IsString {
		s := fg.term(r.X)
		posI := fg.ghostGet(st, cell, e.INT(), "")
		okT := fg.namedBool("it_ok", e.iop("<", posI, "(slen "+s+")", true))
		I := e.INT()
		e.declFun("runeAt", []string{"Str", I}, e.intSort(32))
		e.declFun("runeWidth", []string{"Str", I}, I)
		w := fmt.Sprintf("(runeWidth %s %s)", s, posI)
		rn := fmt.Sprintf("(runeAt %s %s)", s, posI)
		b0 := fmt.Sprintf("(sbyte %s %s)", s, posI)
		lim8 := e.intLit(bigFrom(0x80), 8)
		lim32 := e.intLit(bigFrom(0x80), 32)
		var b0as32 string
		if e.bv {
			b0as32 = fmt.Sprintf("((_ zero_extend 24) %s)", b0)
		} else {
			b0as32 = b0
		}
		// UTF-8 decoding facts (trusted): width in 1..4 and inside the string; ASCII bytes decode to themselves;
		// a non-ASCII lead byte yields a rune >= 0x80; bytes skipped by a multi-byte rune are >= 0x80.
		fg.assumeHere(implies(okT, and(
			e.iop("<=", e.ilit(1), w, true), e.iop("<=", w, e.ilit(4), true), e.iop("<=", e.iop("+", posI, w, true), "(slen "+s+")", true),
			implies(e.iop("<", b0, lim8, false), and(fmt.Sprintf("(= %s %s)", w, e.ilit(1)), fmt.Sprintf("(= %s %s)", rn, b0as32))),
			implies(e.iop(">=", b0, lim8, false), e.iop(">=", rn, lim32, true)),
			fmt.Sprintf("(forall ((j %s)) (! (=> (and %s %s) %s) :pattern ((sbyte %s j))))", I, e.iop("<", posI, "j", true), e.iop("<", "j", e.iop("+", posI, w, true), true), e.iop(">=", fmt.Sprintf("(sbyte %s j)", s), lim8, false), s),
		)))
		e.usesQuant = true
		fg.assumeHere(and(e.iop("<=", e.ilit(0), posI, true), e.iop("<=", e.ilit(0), b0, false), e.iop("<=", b0, e.intLit(bigFrom(255), 8), false)))
		newPos := ite(okT, e.iop("+", posI, w, true), posI)
		fg.ghostSet(st, cell, e.INT(), newPos)
		fg.vals[x] = Val{Typ: tup, Tup: []Val{{T: okT, Typ: types.Typ[types.Bool]}, {T: fg.named("it_k", I, posI), Typ: types.Typ[types.Int]}, {T: fg.named("it_r", e.intSort(32), rn), Typ: types.Typ[types.Rune]}}}
		return
	}
	// map: pick an arbitrary unvisited key of the domain
	m := r.X.Type().Underlying().(*types.Map)
	mref := fg.term(r.X)
	d, vc := fg.mapComps(m)
	ks := e.sortOf(m.Key())
	srt := fmt.Sprintf("(Array %s Bool)", ks)
	seen := fg.ghostGet(st, cell, srt, "")
	dom := fmt.Sprintf("(select %s %s)", fg.get(st, d), mref)
	okT := e.declConst(e.freshName("it_ok"), "Bool")
	k := e.declConst(e.freshName("it_key"), ks)
	// ok => k in domain and not yet seen; !ok => every key of the domain has been seen (or the map is nil)
	fg.assumeHere(implies(okT, and(fmt.Sprintf("(not (= %s 0))", mref), fmt.Sprintf("(select %s %s)", dom, k), fmt.Sprintf("(not (select %s %s))", seen, k))))
	fg.assumeHere(implies(not(okT), or(fmt.Sprintf("(= %s 0)", mref), fmt.Sprintf("(forall ((kk %s)) (! (=> (select %s kk) (select %s kk)) :pattern ((select %s kk))))", ks, dom, seen, dom))))
	e.usesQuant = true
	fg.ghostSet(st, cell, srt, ite(okT, fmt.Sprintf("(store %s %s true)", seen, k), seen))
	v := fg.named("it_v", e.sortOf(m.Elem()), fmt.Sprintf("(select (select %s %s) %s)", fg.get(st, vc), mref, k))
	if _, ok := fg.g.mapNonNil[typeKey(r.X.Type())]; ok {
		fg.assume(implies(okT, fg.nonNilTerm(v, m.Elem())))
	}
	if f := fg.typeFactsTerm(v, m.Elem(), st); f != "" {
		fg.assume(f)
	}
	if f := fg.typeFactsTerm(k, m.Key(), st); f != "" {
		fg.assume(f)
	}
	fg.vals[x] = Val{Typ: tup, Tup: []Val{{T: okT, Typ: types.Typ[types.Bool]}, {T: k, Typ: m.Key()}, {T: v, Typ: m.Elem()}}}
}

// f2iMath: float -> int conversion in math mode: an uninterpreted function of the float
// (deterministic, within the target range); its exact value is not modelled.
func (fg *FuncGen) f2iMath(v string, to types.Type) string {
	bits, signed, _ := intInfo(to)
	f := fmt.Sprintf("f2i_%d_%v", bits, signed)
	fg.enc.declFun(f, []string{F64}, "Int")
	t := fmt.Sprintf("(%s %s)", f, v)
	fg.assume(fg.enc.rangeFact(t, to))
	fg.note("float->int conversion is an uninterpreted (deterministic, in-range) function in math mode")
	return t
}

func (fg *FuncGen) nonNilTerm(term string, t types.Type) string {
	if isSlice(t) {
		return fmt.Sprintf("(not (= (sbase %s) 0))", term)
	}
	if isIface(t) {
		return fmt.Sprintf("(not (= %s anil))", term)
	}
	return fmt.Sprintf("(not (= %s 0))", term)
}
