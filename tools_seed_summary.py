#!/usr/bin/env python3
"""Writes seeded/SUMMARY.md from seeded/<id>/{meta,validation,detection}.json."""
import json, os
ROOT = os.path.dirname(os.path.abspath(__file__))
rows = []
for sid in sorted(os.listdir(os.path.join(ROOT, "seeded"))):
    d = os.path.join(ROOT, "seeded", sid)
    if not os.path.isdir(d):
        continue
    def load(n):
        try:
            return json.load(open(os.path.join(d, n)))
        except Exception:
            return {}
    meta, val, det = load("meta.json"), load("validation.json"), load("detection.json")
    obl = ""
    replayed = 0
    for pid, c in (det.get("checks") or {}).items():
        replayed += c.get("replayed_on_real_code") or sum(1 for v in c.get("violations") or [] if "no-failing-input-found" not in v)
        for v in c.get("violations") or []:
            if "obligation=" in v:
                obl = v.split("obligation=", 1)[1][:110]
                break
    rows.append((sid, meta.get("property", ""), "yes" if val.get("valid") else "?", "DETECTED" if det.get("detected") else ("missed" if det else "not run"),
                 ",".join((det.get("checks") or {}).keys()) + (" (input replayed on the real code)" if replayed else ""), obl.replace("|", "/"), (meta.get("summary") or "")[:140].replace("|", "/").replace("\n", " ")))
with open(os.path.join(ROOT, "seeded", "SUMMARY.md"), "w") as f:
    f.write("# Seeded changes and the checks that catch them\n\nWritten by tools_seed_summary.py from the last run of each seed (tools_run_seeds.py on /repo itself, or tools_run_seeds_lanes.py on throw-away copies of its working tree).\n\n")
    f.write("| seed | property | validated | outcome | check run | first failing obligation | change |\n|---|---|---|---|---|---|---|\n")
    for r in rows:
        f.write("| " + " | ".join(r) + " |\n")
    n = sum(1 for r in rows if r[3] == "DETECTED")
    f.write(f"\n{n} of {len(rows)} detected.\n")
print(open(os.path.join(ROOT, "seeded", "SUMMARY.md")).read()[-200:])
